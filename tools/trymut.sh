#!/bin/bash
# usage: trymut.sh <patch.diff> <tier> <budget-seconds> CHECK...   -- applies the patch to /repo, runs checks, reverts
set -u
patch=$1; tier=$2; budget=$3; shift 3
cd /repo || exit 2
if [ -n "$(git status --porcelain)" ]; then echo "repo dirty"; exit 2; fi
git apply "$patch" || { echo "patch does not apply"; exit 2; }
for c in "$@"; do
  out=$(cd /verif && ./vcheck $c --tier $tier --budget $budget 2>&1)
  rc=$?
  echo "$c rc=$rc $(echo "$out" | grep -m1 '^VIOLATION' | cut -c1-160) $(echo "$out" | grep -A1 -m1 '^VIOLATION' | tail -1 | cut -c1-200)"
  [ $rc -eq 0 ] && echo "   $(echo "$out" | grep '^OK' | cut -c1-100)"
done
git -C /repo checkout -- .
git -C /repo status --porcelain | head -3
