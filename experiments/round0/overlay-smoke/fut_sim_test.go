package future

import (
	"testing"
	"pgregory.net/rapid"
	"go.minekube.com/gate/zzverif/simrt"
)

func TestOverlayWorks(t *testing.T) {
	f := New[int]()
	n := 0
	f.ThenAccept(func(v int) { n += v })
	f.Complete(simrt.Seven())
	if n != 7 { t.Fatal(n) }
	_ = rapid.Int
	t.Log("overlay ok", verifExported())
}
