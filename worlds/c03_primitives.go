package worlds

import (
	"bytes"
	"fmt"
	"io"
	"math"
	"reflect"
	"runtime"
	"strings"
	"time"

	"go.minekube.com/common/minecraft/key"
	"go.minekube.com/gate/pkg/edition/java/profile"
	"go.minekube.com/gate/pkg/edition/java/proto/util"
	"go.minekube.com/gate/pkg/util/uuid"
	"go.minekube.com/gate/pkg/zzverif/mcpeer"
)

// C03 — primitive field codecs are exact inverses and reject truncated input.
//
// The part of the property that has a fault in it: a frame that ends early. Primitive
// decoders in gate always read from the bytes of one frame, so the injected fault is "the
// frame is cut after k bytes" for every k (all k for short encodings, a spread including
// every field boundary otherwise), plus hostile length prefixes (negative, above the limit,
// huge) in front of a short body. Oracle: the full encoding decodes to the same value and
// consumes exactly its bytes; where an independent encoder exists (mcpeer) gate's encoder
// produced the same bytes; every strict prefix yields an error — never a value, never a
// panic; hostile length prefixes are rejected without allocating in proportion to them.
// There is no scheduler in this check; it is listed at a lower level for that reason.
func init() {
	Register(&Scenario{Prop: "C03", Desc: "primitive codecs: inverse, exact consumption, truncated input and hostile lengths rejected", Run: runC03,
		Quick: 4000, Thorough: 1500000, Crash: true,
		Real:  "pkg/edition/java/proto/util Read*/Write* primitives",
		Model: "independent primitive encoder (mcpeer) for the wire form; truncation of the frame as the injected fault"})
}

type primCase struct {
	name        string
	gen         func(r *Run) any
	enc         func(w io.Writer, v any) error
	dec         func(rd io.Reader) (any, error)
	ref         func(v any) []byte // independent encoding, nil if none
	lenPrefixed bool
}

func genString(r *Run, maxLen int) string {
	n := r.W.Pick(maxLen + 1)
	if r.W.Pick(4) != 0 && n > 40 {
		n = r.W.Pick(40)
	}
	var b strings.Builder
	for i := 0; i < n; i++ {
		switch r.W.Pick(6) {
		case 0:
			b.WriteRune(rune(0x80 + r.W.Pick(0x700)))
		case 1:
			b.WriteRune(rune(0x4e00 + r.W.Pick(0x100)))
		case 2:
			b.WriteRune(rune(0x1f600 + r.W.Pick(0x40)))
		default:
			b.WriteByte(byte(0x20 + r.W.Pick(0x5f)))
		}
	}
	return b.String()
}

func genBytes(r *Run, maxLen int) []byte {
	n := r.W.Pick(maxLen + 1)
	if r.W.Pick(4) != 0 && n > 64 {
		n = r.W.Pick(64)
	}
	b := make([]byte, n)
	for i := range b {
		b[i] = byte(r.W.Pick(256))
	}
	return b
}

func gen64(r *Run) uint64 {
	switch r.W.Pick(6) {
	case 0:
		return []uint64{0, 1, math.MaxUint64, 1 << 63, 1<<63 - 1, 127, 128, 255, 256, 1<<31 - 1, 1 << 31, 1<<32 - 1}[r.W.Pick(12)]
	default:
		return uint64(r.W.Pick(1<<31))<<33 ^ uint64(r.W.Pick(1<<31))<<2 ^ uint64(r.W.Pick(4))
	}
}

func primCases() []primCase {
	fixed := func(name string, enc func(w io.Writer, x uint64) error, dec func(rd io.Reader) (uint64, error), ref func(x uint64) []byte, mask uint64) primCase {
		return primCase{name: name,
			gen: func(r *Run) any { return gen64(r) & mask },
			enc: func(w io.Writer, v any) error { return enc(w, v.(uint64)) },
			dec: func(rd io.Reader) (any, error) { x, err := dec(rd); return x & mask, err },
			ref: func(v any) []byte { return ref(v.(uint64)) }}
	}
	return []primCase{
		{name: "VarInt",
			gen: func(r *Run) any { return int(int32(uint32(gen64(r)))) },
			enc: func(w io.Writer, v any) error { return util.WriteVarInt(w, v.(int)) },
			dec: func(rd io.Reader) (any, error) { return util.ReadVarInt(rd) },
			ref: func(v any) []byte { return mcpeer.AppendVarInt(nil, int32(v.(int))) }},
		fixed("Int64", func(w io.Writer, x uint64) error { return util.WriteInt64(w, int64(x)) }, func(rd io.Reader) (uint64, error) { v, e := util.ReadInt64(rd); return uint64(v), e }, func(x uint64) []byte { return (&mcpeer.W{}).I64(int64(x)).B }, math.MaxUint64),
		fixed("Int32", func(w io.Writer, x uint64) error { return util.WriteInt32(w, int32(x)) }, func(rd io.Reader) (uint64, error) { v, e := util.ReadInt32(rd); return uint64(uint32(v)), e }, func(x uint64) []byte { return (&mcpeer.W{}).I32(int32(x)).B }, math.MaxUint32),
		fixed("Uint16", func(w io.Writer, x uint64) error { return util.WriteUint16(w, uint16(x)) }, func(rd io.Reader) (uint64, error) { v, e := util.ReadUint16(rd); return uint64(v), e }, func(x uint64) []byte { return (&mcpeer.W{}).U16(uint16(x)).B }, 0xffff),
		fixed("Int16", func(w io.Writer, x uint64) error { return util.WriteInt16(w, int16(x)) }, func(rd io.Reader) (uint64, error) { v, e := util.ReadInt16(rd); return uint64(uint16(v)), e }, func(x uint64) []byte { return (&mcpeer.W{}).U16(uint16(x)).B }, 0xffff),
		fixed("Uint8", func(w io.Writer, x uint64) error { return util.WriteUint8(w, uint8(x)) }, func(rd io.Reader) (uint64, error) { v, e := util.ReadUint8(rd); return uint64(v), e }, func(x uint64) []byte { return []byte{byte(x)} }, 0xff),
		fixed("Float64", func(w io.Writer, x uint64) error { return util.WriteFloat64(w, math.Float64frombits(x)) }, func(rd io.Reader) (uint64, error) { v, e := util.ReadFloat64(rd); return math.Float64bits(v), e }, func(x uint64) []byte { return (&mcpeer.W{}).I64(int64(x)).B }, math.MaxUint64),
		fixed("Float32", func(w io.Writer, x uint64) error { return util.WriteFloat32(w, math.Float32frombits(uint32(x))) }, func(rd io.Reader) (uint64, error) {
			v, e := util.ReadFloat32(rd)
			return uint64(math.Float32bits(v)), e
		}, func(x uint64) []byte { return (&mcpeer.W{}).I32(int32(x)).B }, math.MaxUint32),
		{name: "Bool",
			gen: func(r *Run) any { return r.W.Pick(2) == 1 },
			enc: func(w io.Writer, v any) error { return util.WriteBool(w, v.(bool)) },
			dec: func(rd io.Reader) (any, error) { return util.ReadBool(rd) },
			ref: func(v any) []byte { return (&mcpeer.W{}).Bool(v.(bool)).B }},
		{name: "UUID",
			gen: func(r *Run) any { var u uuid.UUID; copy(u[:], genFixed(r, 16)); return u },
			enc: func(w io.Writer, v any) error { return util.WriteUUID(w, v.(uuid.UUID)) },
			dec: func(rd io.Reader) (any, error) { return util.ReadUUID(rd) },
			ref: func(v any) []byte { return (&mcpeer.W{}).UUID([16]byte(v.(uuid.UUID))).B }},
		{name: "UUIDIntArray",
			gen: func(r *Run) any { var u uuid.UUID; copy(u[:], genFixed(r, 16)); return u },
			enc: func(w io.Writer, v any) error { return util.WriteUUIDIntArray(w, v.(uuid.UUID)) },
			dec: func(rd io.Reader) (any, error) { return util.ReadUUIDIntArray(rd) }},
		{name: "String", lenPrefixed: true,
			gen: func(r *Run) any { return genString(r, 600) },
			enc: func(w io.Writer, v any) error { return util.WriteString(w, v.(string)) },
			dec: func(rd io.Reader) (any, error) { return util.ReadString(rd) },
			ref: func(v any) []byte { return (&mcpeer.W{}).String(v.(string)).B }},
		{name: "Bytes", lenPrefixed: true,
			gen: func(r *Run) any { return genBytes(r, 3000) },
			enc: func(w io.Writer, v any) error { return util.WriteBytes(w, v.([]byte)) },
			dec: func(rd io.Reader) (any, error) { return util.ReadBytes(rd) },
			ref: func(v any) []byte { return (&mcpeer.W{}).ByteArray(v.([]byte)).B }},
		{name: "Bytes17",
			gen: func(r *Run) any { return genBytes(r, 3000) },
			enc: func(w io.Writer, v any) error { return util.WriteBytes17(w, v.([]byte), true) },
			dec: func(rd io.Reader) (any, error) { return util.ReadBytes17(rd) },
			ref: func(v any) []byte { b := v.([]byte); return append((&mcpeer.W{}).U16(uint16(len(b))).B, b...) }},
		{name: "ExtendedForgeShort",
			gen: func(r *Run) any {
				if r.W.Pick(3) == 0 {
					return []int{0, 1, 255, 256, 32767, 32768, 65535, 65536, 70000, 98303, 98304, 131072, 200000, util.ForgeMaxArrayLength}[r.W.Pick(14)]
				}
				return r.W.Pick(util.ForgeMaxArrayLength + 1)
			},
			enc: func(w io.Writer, v any) error { return util.WriteExtendedForgeShort(w, v.(int)) },
			dec: func(rd io.Reader) (any, error) { return util.ReadExtendedForgeShort(rd) },
			ref: func(v any) []byte {
				n := v.(int)
				low, high := n&0x7fff, (n&0x7f8000)>>15
				if high != 0 {
					return append((&mcpeer.W{}).U16(uint16(low|0x8000)).B, byte(high))
				}
				return (&mcpeer.W{}).U16(uint16(low)).B
			}},
		{name: "UTF",
			gen: func(r *Run) any { return genString(r, 300) },
			enc: func(w io.Writer, v any) error { return util.WriteUTF(w, v.(string)) },
			dec: func(rd io.Reader) (any, error) { return util.ReadUTF(rd) },
			ref: func(v any) []byte { s := v.(string); return append((&mcpeer.W{}).U16(uint16(len(s))).B, s...) }},
		{name: "Properties", lenPrefixed: true,
			gen: func(r *Run) any {
				n := r.W.Pick(4)
				ps := make([]profile.Property, 0, n)
				for i := 0; i < n; i++ {
					p := profile.Property{Name: genString(r, 20), Value: genString(r, 200)}
					if r.W.Pick(2) == 1 {
						p.Signature = "sig" + genString(r, 60)
					}
					ps = append(ps, p)
				}
				return ps
			},
			enc: func(w io.Writer, v any) error { return util.WriteProperties(w, v.([]profile.Property)) },
			dec: func(rd io.Reader) (any, error) { return util.ReadProperties(rd) },
			ref: func(v any) []byte {
				w := &mcpeer.W{}
				ps := v.([]profile.Property)
				w.VarInt(int32(len(ps)))
				for _, p := range ps {
					w.String(p.Name).String(p.Value)
					if p.Signature != "" {
						w.Bool(true).String(p.Signature)
					} else {
						w.Bool(false)
					}
				}
				return w.B
			}},
		{name: "Key", lenPrefixed: true,
			gen: func(r *Run) any {
				return key.New([]string{"minecraft", "verif", "a_b.c-d"}[r.W.Pick(3)], []string{"brand", "path/to/thing", "x", "a.b_c-d/e"}[r.W.Pick(4)])
			},
			enc: func(w io.Writer, v any) error { return util.WriteKey(w, v.(key.Key)) },
			dec: func(rd io.Reader) (any, error) { return util.ReadKey(rd) },
			ref: func(v any) []byte { return (&mcpeer.W{}).String(v.(key.Key).String()).B }},
		{name: "VarIntArray", lenPrefixed: true,
			gen: func(r *Run) any {
				n := r.W.Pick(6)
				a := make([]int, n)
				for i := range a {
					a[i] = int(int32(uint32(gen64(r))))
				}
				return a
			},
			enc: func(w io.Writer, v any) error { return util.WriteVarIntArray(w, v.([]int)) },
			dec: func(rd io.Reader) (any, error) { return util.ReadVarIntArray(rd) }},
		{name: "StringArray", lenPrefixed: true,
			gen: func(r *Run) any {
				n := r.W.Pick(5)
				a := make([]string, n)
				for i := range a {
					a[i] = genString(r, 30)
				}
				return a
			},
			enc: func(w io.Writer, v any) error { return util.WriteStrings(w, v.([]string)) },
			dec: func(rd io.Reader) (any, error) { return util.ReadStringArray(rd) }},
	}
}

func genFixed(r *Run, n int) []byte {
	b := make([]byte, n)
	for i := range b {
		b[i] = byte(r.W.Pick(256))
	}
	return b
}

func primEqual(a, b any) bool {
	switch x := a.(type) {
	case []byte:
		y, ok := b.([]byte)
		return ok && bytes.Equal(x, y)
	case []profile.Property:
		y, ok := b.([]profile.Property)
		if !ok || len(x) != len(y) {
			return false
		}
		for i := range x {
			if x[i] != y[i] {
				return false
			}
		}
		return true
	case []int:
		y, ok := b.([]int)
		return ok && (len(x) == 0 && len(y) == 0 || reflect.DeepEqual(x, y))
	case []string:
		y, ok := b.([]string)
		return ok && (len(x) == 0 && len(y) == 0 || reflect.DeepEqual(x, y))
	case key.Key:
		y, ok := b.(key.Key)
		return ok && y != nil && x.String() == y.String()
	}
	return reflect.DeepEqual(a, b)
}

// safeDec runs a decoder; a panic is a violation of its own kind.
func safeDec(dec func(rd io.Reader) (any, error), rd io.Reader) (v any, err error, panicked any) {
	defer func() {
		if e := recover(); e != nil {
			panicked = e
		}
	}()
	v, err = dec(rd)
	return
}

func runC03(r *Run) {
	s := r.NewSim(1000)
	_ = s
	cases := primCases()
	pc := cases[r.W.Pick(len(cases))]
	r.Res.Variant = pc.name
	v := pc.gen(r)
	r.Op("encode:" + pc.name)
	var buf bytes.Buffer
	if err := pc.enc(&buf, v); err != nil {
		r.Fail("encoder-error", pc.name, "%s: encoder refused value %v: %v", pc.name, short(v), err)
		return
	}
	enc := append([]byte{}, buf.Bytes()...)
	if pc.ref != nil {
		if want := pc.ref(v); !bytes.Equal(enc, want) {
			r.Fail("wire-form-differs", pc.name, "%s(%v): gate wrote % x, the protocol's encoding is % x", pc.name, short(v), head40(enc), head40(want))
			return
		}
	}
	// full decode with a sentinel behind it
	rd := bytes.NewReader(append(append([]byte{}, enc...), 0xAB))
	got, err, pan := safeDec(pc.dec, rd)
	if pan != nil {
		r.Fail("decoder-panic", pc.name+":full", "%s: decoder panicked on its own encoder's output % x: %v", pc.name, head40(enc), pan)
		return
	}
	if err != nil {
		r.Fail("roundtrip-failed", pc.name, "%s(%v): decoder rejected the encoder's output % x: %v", pc.name, short(v), head40(enc), err)
		return
	}
	if !primEqual(v, got) {
		r.Fail("roundtrip-value-differs", pc.name, "%s: wrote %v, read back %v (bytes % x)", pc.name, short(v), short(got), head40(enc))
		return
	}
	if rd.Len() != 1 {
		r.Fail("consumed-wrong-byte-count", pc.name, "%s(%v): encoding has %d bytes, decoder consumed %d", pc.name, short(v), len(enc), len(enc)+1-rd.Len())
		return
	}
	// the fault: the frame ends after k bytes
	var cuts []int
	if len(enc) <= 48 {
		for k := 0; k < len(enc); k++ {
			cuts = append(cuts, k)
		}
	} else {
		cuts = append(cuts, 0, 1, 2, 3, len(enc)-1, len(enc)-2, len(enc)/2)
		for i := 0; i < 12; i++ {
			cuts = append(cuts, r.F.Pick(len(enc)))
		}
	}
	for _, k := range cuts {
		r.Fault("frame_truncated")
		got, err, pan := safeDec(pc.dec, bytes.NewReader(enc[:k]))
		if pan != nil {
			r.Fail("decoder-panic", pc.name+":truncated", "%s: decoder panicked on a frame cut after %d of %d bytes: %v", pc.name, k, len(enc), pan)
			return
		}
		if err == nil {
			r.Fail("truncated-input-accepted", pc.name, "%s: encoding of %v has %d bytes; given only the first %d the decoder returned %v without an error", pc.name, short(v), len(enc), k, short(got))
			return
		}
	}
	// hostile length prefixes
	if pc.lenPrefixed {
		for _, n := range []int32{-1, math.MinInt32, math.MaxInt32, 1 << 24, 40000} {
			r.Fault("hostile_length_prefix")
			in := append(mcpeer.AppendVarInt(nil, n), 1, 2, 3)
			var ms runtime.MemStats
			runtime.ReadMemStats(&ms)
			before := ms.TotalAlloc
			got, err, pan := safeDec(pc.dec, bytes.NewReader(in))
			runtime.ReadMemStats(&ms)
			if pan != nil {
				r.Fail("decoder-panic", pc.name+":length", "%s: decoder panicked on length prefix %d: %v", pc.name, n, pan)
				return
			}
			if err == nil {
				r.Fail("hostile-length-accepted", pc.name, "%s: length prefix %d followed by 3 bytes decoded to %v without an error", pc.name, n, short(got))
				return
			}
			if d := ms.TotalAlloc - before; d > 4<<20 {
				r.Fail("allocation-before-validation", pc.name, "%s: length prefix %d made the decoder allocate %d bytes before rejecting", pc.name, n, d)
				return
			}
		}
	}
	r.State(fmt.Sprintf("%s len%d", pc.name, min(len(enc), 64)))
	r.Res.Sample = map[string]any{"primitive": pc.name, "encoded_bytes": len(enc), "cuts": len(cuts)}
	_ = time.Now
}

func short(v any) string {
	s := fmt.Sprintf("%v", v)
	if b, ok := v.([]byte); ok {
		s = fmt.Sprintf("[%d bytes % x]", len(b), head40(b))
	}
	if len(s) > 120 {
		s = s[:120] + "…"
	}
	return s
}

func head40(b []byte) []byte {
	if len(b) > 40 {
		return b[:40]
	}
	return b
}
