package worlds

import (
	"github.com/robinbraemer/event"
	"go.minekube.com/gate/pkg/edition/java/proxy"
)

// classicEvents holds scripted subscribers; installed once per world.
type classicEvents struct {
	onLogin      func(e *proxy.LoginEvent)
	onDisconnect func(e *proxy.DisconnectEvent)
	onPreLogin   func(e *proxy.PreLoginEvent)
	onPostConnect func(e *proxy.ServerPostConnectEvent)
	// Connected counts ServerPostConnectEvents per player name (the proxy finished a join/switch).
	Connected map[string]int
}

var eventsOf = map[*classicWorld]*classicEvents{}

func proxyEvents(w *classicWorld) *classicEvents {
	if ce, ok := eventsOf[w]; ok {
		return ce
	}
	ce := &classicEvents{Connected: map[string]int{}}
	eventsOf = map[*classicWorld]*classicEvents{w: ce} // only the current world is kept
	event.Subscribe(w.ev, 0, func(e *proxy.LoginEvent) {
		if ce.onLogin != nil {
			ce.onLogin(e)
		}
	})
	event.Subscribe(w.ev, 0, func(e *proxy.DisconnectEvent) {
		if ce.onDisconnect != nil {
			ce.onDisconnect(e)
		}
	})
	event.Subscribe(w.ev, 0, func(e *proxy.PreLoginEvent) {
		if ce.onPreLogin != nil {
			ce.onPreLogin(e)
		}
	})
	event.Subscribe(w.ev, 0, func(e *proxy.ServerPostConnectEvent) {
		ce.Connected[e.Player().Username()]++
		if ce.onPostConnect != nil {
			ce.onPostConnect(e)
		}
	})
	return ce
}

// proxyEventsFor subscribes a PreLogin recorder on a bare event manager.
func proxyEventsFor(ev *simEvent, onPreLogin func(e *proxy.PreLoginEvent)) {
	event.Subscribe(ev, 0, onPreLogin)
}
