//go:build !race

package simrt

const RaceBuild = false

func raceDisable() {}
func raceEnable()  {}
