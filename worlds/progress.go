package worlds

import "sync/atomic"

// progressExtra lets long non-simulated computations tell the watchdog they are alive.
var progressExtra atomic.Int64
