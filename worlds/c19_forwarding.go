package worlds

import (
	"bytes"
	"crypto/hmac"
	"crypto/sha256"
	"encoding/json"
	"fmt"
	"go.minekube.com/gate/pkg/edition/java/proxy"
	"strings"
	"time"

	"go.minekube.com/gate/pkg/edition/java/config"
	"go.minekube.com/gate/pkg/edition/java/proto/version"
	"go.minekube.com/gate/pkg/gate/proto"
	"go.minekube.com/gate/pkg/zzverif/mcpeer"
)

// C19 / C20 — backend handshake address and Velocity modern forwarding.
//
// Real proxy; clients join with tape-chosen virtual-host spellings (plain, with port
// variations, legacy/modern Forge tokens); forwarding mode none / legacy / BungeeGuard /
// velocity. The backend model parses what it receives with the independent codec:
// C19: first NUL-part of Handshake.ServerAddress = the player's host, or (legacy /
// BungeeGuard) exactly addr NUL ip NUL undashed-uuid NUL json-properties (+ token).
// C20: backend in Paper mode requests forwarding with versions 0..255 / empty / garbage;
// HMAC-SHA256 verifies under the secret; parsed fields = model's; chosen version = a
// reference of Velocity's findForwardingVersion (requested byte read as a signed byte,
// as Velocity's readByte does); a backend that never asks makes the attempt fail.
func init() {
	Register(&Scenario{Prop: "C19", Desc: "backend handshake: player's host first; legacy/BungeeGuard data well-formed", Run: func(r *Run) { runForwarding(r, "C19") },
		Quick: 400, Thorough: 60000,
		Real:  "proxy.Proxy: serverConnection.startHandshake/handshakeAddr, createLegacyForwardingAddress, createBungeeGuardForwardingAddress, connection types",
		Model: "client/backend actors; the backend parses the address with its own code"})
	Register(&Scenario{Prop: "C20", Desc: "velocity modern forwarding authentic and negotiated like Velocity", Run: func(r *Run) { runForwarding(r, "C20") },
		Quick: 400, Thorough: 60000,
		Real:   "proxy.Proxy: backendLoginSessionHandler.handleLoginPluginMessage/handleServerLoginSuccess, internal/velocity.CreateForwardingData",
		Model:  "backend actor in Paper mode (independent parser + HMAC check); refForwardingVersion = reference of Velocity's negotiation",
		Assume: []string{"players carry no signed chat key (1.19-1.19.2 key revisions are not simulated): the key branches of the negotiation are not reached"}})
}

func refForwardingVersion(requestedByte int, hasBody bool, clientProt proto.Protocol) int {
	requested := 1
	if hasBody {
		requested = int(int8(byte(requestedByte))) // Velocity: ByteBuf.readByte() is signed
	}
	if requested > 4 {
		requested = 4
	}
	if requested > 1 {
		if clientProt >= 761 { // 1.19.3
			if requested >= 4 {
				return 4
			}
			return 1
		}
		return 1 // no identified key in this simulation
	}
	return 1
}

func runForwarding(r *Run, prop string) {
	mode := []config.ForwardingMode{config.NoneForwardingMode, config.LegacyForwardingMode, config.BungeeGuardForwardingMode, config.VelocityForwardingMode}[r.W.Pick(4)]
	if prop == "C20" {
		mode = config.VelocityForwardingMode
	}
	secret := fmt.Sprintf("s3cret-%d", r.W.Pick(1000))
	prots := []proto.Protocol{version.Minecraft_1_20_2.Protocol, version.Minecraft_1_20.Protocol, version.Minecraft_1_15.Protocol, version.Minecraft_1_19_4.Protocol, version.Minecraft_1_21.Protocol, version.Minecraft_1_13.Protocol, version.Minecraft_1_12_2.Protocol, version.Minecraft_1_8.Protocol, version.Minecraft_1_16_4.Protocol,
		// the forwarding version boundaries: 1.19 (key), 1.19.1 (linked key), 1.19.3 (no key)
		version.Minecraft_1_19.Protocol, version.Minecraft_1_19_1.Protocol, version.Minecraft_1_19_3.Protocol, version.Minecraft_1_18_2.Protocol}
	prot := prots[r.W.Pick(len(prots))]
	if mode == config.VelocityForwardingMode && prot.Lower(version.Minecraft_1_13) {
		prot = version.Minecraft_1_13.Protocol
	}
	if prot == version.Minecraft_1_16_4.Protocol {
		prot = version.Minecraft_1_15.Protocol // JoinGame registry NBT for 1.16.x is not modelled
	}
	// a ServerInfo may provide the handshake address itself (HandshakeAddresser): it is given
	// the player's virtual host and its answer replaces every forwarding scheme
	var hook *hookedInfo
	if prop == "C19" && r.W.Pick(5) == 0 {
		classicWrapInfo = func(b *backendModel) proxy.ServerInfo { hook = &hookedInfo{backendModel: b}; return hook }
		defer func() { classicWrapInfo = nil }()
	}
	w := newClassic(r, []string{"lobby"}, func(cfg *config.Config) {
		cfg.Forwarding.Mode = mode
		cfg.ForceKeyAuthentication = false // 1.19-1.19.2 clients without a profile key are admitted
		cfg.Forwarding.VelocitySecret = secret
		cfg.Forwarding.BungeeGuardSecret = secret
	})
	proxyEvents(w)
	// the player's host (what must come first in the backend address) and an optional Forge
	// marker: hosts ending in letters / digits that also occur in the markers included
	host := []string{"play.example.com", "Play.Example.COM", "mc.h-o-s-t.example", "192.168.7.9", "10.0.0.3", "192.168.1.22", "PLAY.EXAMPLE.ORG", "mc.FML", "srv.FORGE2", "host23"}[r.W.Pick(10)]
	switch r.W.Pick(6) {
	case 1:
		if prot.Lower(version.Minecraft_1_13) {
			host += "\x00FML\x00"
		}
	case 2:
		if prot.GreaterEqual(version.Minecraft_1_13) && prot.Lower(version.Minecraft_1_20_2) {
			host += "\x00FML2\x00"
		}
	case 3:
		if prot.GreaterEqual(version.Minecraft_1_18) && prot.Lower(version.Minecraft_1_20_2) {
			host += "\x00FML3\x00"
		}
	case 4:
		if prot.GreaterEqual(version.Minecraft_1_20_2) {
			host += []string{"\x00FORGE", "\x00FORGE2"}[r.W.Pick(2)]
		}
	}
	port := []int{25565, 25566, 1, 65535}[r.W.Pick(4)]
	beh := &w.backends["lobby"].Beh
	neverAsk := false
	reqVer, hasBody := 1, false
	if mode == config.VelocityForwardingMode {
		switch r.W.Pick(8) {
		case 0:
			neverAsk = true
		case 1:
			beh.Velocity, beh.VelocityVer = true, -1
		case 2:
			beh.Velocity, beh.VelocityVer = true, -2
		default:
			reqVer = []int{0, 1, 2, 3, 4, 5, 127, 128, 200, 255}[r.W.Pick(10)]
			if r.W.Pick(3) == 0 {
				reqVer = r.W.Pick(256)
			}
			hasBody = true
			beh.Velocity, beh.VelocityVer = true, reqVer
		}
	}
	name := "Forward"
	var cl *clientModel
	cl = w.addClient(name, prot, func(c *clientModel) {
		c.Host, c.Port = host, port
		r.Op(fmt.Sprintf("join:%s", mode))
		if c.Login() {
			c.StartReader()
			simrtSleep(50 * time.Millisecond)
		}
		c.Close()
	})
	why := w.s.RunUntil(30*time.Second, func() bool { return w.allClientsDone() })
	if why == "steps" {
		r.Inconclusive("step budget exhausted")
		return
	}
	if r.CheckDeadlock() {
		return
	}
	conns := w.backends["lobby"].Conns
	desc := func() string {
		a := ""
		if len(conns) > 0 && conns[0].Handshake != nil {
			a = conns[0].Handshake.ServerAddress
		}
		return fmt.Sprintf("mode=%s protocol=%d host=%q port=%d backend-address=%q client=%v kick=%q", mode, prot, host, port, a, clientPhases(w), cl.KickText())
	}
	if len(conns) == 0 || conns[0].Handshake == nil {
		r.Fail("backend-never-dialled", "dial", "%s", desc())
		return
	}
	bc := conns[0]
	addr := bc.Handshake.ServerAddress
	playerHost := host
	if i := strings.IndexByte(playerHost, 0); i >= 0 {
		playerHost = playerHost[:i]
	}
	if prop == "C19" && hook != nil {
		if len(hook.got) == 0 || strings.Split(hook.got[0], "\x00")[0] != playerHost {
			r.Fail("handshake-hook-not-given-the-players-host", string(mode), "the ServerInfo's HandshakeAddr hook was given %q, the player's virtual host is %q: %s", hook.got, playerHost, desc())
			return
		}
		if !strings.HasPrefix(addr, "hooked."+playerHost) {
			r.Fail("player-host-not-first", "hook:"+string(mode), "the backend address %q does not start with the hook's answer for the player's host %q: %s", addr, playerHost, desc())
			return
		}
		r.State(fmt.Sprintf("hook|%s|%q|%d", mode, host, prot))
		r.Res.Sample = map[string]any{"mode": string(mode), "host": host, "protocol": int(prot), "backend_address": addr, "hook": true}
		return
	}
	if prop == "C19" {
		parts := strings.Split(addr, "\x00")
		switch mode {
		case config.LegacyForwardingMode, config.BungeeGuardForwardingMode:
			if len(parts) != 4 {
				r.Fail("bungee-forwarding-malformed", string(mode), "expected addr NUL ip NUL uuid NUL properties (4 parts), got %d: %s", len(parts), desc())
				return
			}
			if parts[0] != w.backends["lobby"].addr.String() {
				r.Fail("bungee-forwarding-malformed", "addr", "first part %q is not the backend address %q: %s", parts[0], w.backends["lobby"].addr, desc())
				return
			}
			if parts[1] != cl.IP {
				r.Fail("bungee-forwarding-malformed", "ip", "player ip part %q, client ip %q: %s", parts[1], cl.IP, desc())
				return
			}
			u := offlineUUID(name)
			if parts[2] != fmt.Sprintf("%x", u[:]) {
				r.Fail("bungee-forwarding-malformed", "uuid", "uuid part %q, want undashed %x: %s", parts[2], u[:], desc())
				return
			}
			var props []struct {
				Name, Value, Signature string
			}
			if err := json.Unmarshal([]byte(parts[3]), &props); err != nil {
				r.Fail("bungee-forwarding-malformed", "json", "properties part does not parse as a JSON property list (%v): %s", err, desc())
				return
			}
			hasTok := false
			for _, p := range props {
				if p.Name == "bungeeguard-token" && p.Value == secret {
					hasTok = true
				}
			}
			if (mode == config.BungeeGuardForwardingMode) != hasTok {
				r.Fail("bungee-forwarding-malformed", "token", "bungeeguard token present=%v in mode %s: %s", hasTok, mode, desc())
				return
			}
		default:
			if parts[0] != playerHost {
				r.Fail("player-host-not-first", string(mode), "first NUL-part of the backend address is %q, the player's host is %q: %s", parts[0], playerHost, desc())
				return
			}
			if (strings.Contains(host, "\x00FML") && !strings.Contains(addr[len(parts[0]):], "FML")) || (strings.Contains(host, "\x00FORGE") && !strings.Contains(addr[len(parts[0]):], "FORGE")) {
				r.Fail("forge-marker-lost", string(mode), "Forge client marker is missing in the backend address: %s", desc())
				return
			}
		}
		if bc.Handshake.ProtocolVersion != int(prot) || bc.Handshake.NextStatus != 2 {
			r.Fail("backend-handshake-wrong", "fields", "backend handshake protocol %d next %d: %s", bc.Handshake.ProtocolVersion, bc.Handshake.NextStatus, desc())
			return
		}
		r.State(fmt.Sprintf("%s|%q|%d", mode, host, prot))
		r.Res.Sample = map[string]any{"mode": string(mode), "host": host, "protocol": int(prot), "backend_address": addr}
		return
	}
	// C20
	if neverAsk {
		if len(cl.JoinGames) > 0 {
			r.Fail("joined-without-forwarding-request", "noask", "the backend completed login without requesting forwarding, yet the player joined: %s", desc())
			return
		}
		if cl.Kick == nil {
			r.Fail("no-forwarding-failure-message", "noask", "expected the attempt to fail with the forwarding message: %s", desc())
			return
		}
		r.State("never-ask")
		return
	}
	resp := bc.VelocityResp
	if resp == nil || !resp.Success {
		r.Fail("forwarding-not-answered", "resp", "backend asked for forwarding (version byte %d, body=%v) and got %+v: %s", reqVer, hasBody, resp, desc())
		return
	}
	if len(resp.Data) < 33 {
		r.Fail("forwarding-data-malformed", "short", "forwarding payload has %d bytes", len(resp.Data))
		return
	}
	mac := hmac.New(sha256.New, []byte(secret))
	mac.Write(resp.Data[32:])
	if !hmac.Equal(mac.Sum(nil), resp.Data[:32]) {
		r.Fail("forwarding-hmac-invalid", "hmac", "HMAC-SHA256 of the forwarding data does not verify under the configured secret: %s", desc())
		return
	}
	b := mcpeer.NewBuf(resp.Data[32:])
	gotVer := int(b.VarInt())
	gotIP := b.String()
	gotUUID := b.UUID()
	gotName := b.String()
	nProps := int(b.VarInt())
	for i := 0; i < nProps && b.Err == nil; i++ {
		_ = b.String()
		_ = b.String()
		if b.Bool() {
			_ = b.String()
		}
	}
	if b.Err != nil {
		r.Fail("forwarding-data-malformed", "parse", "forwarding data does not parse the way Paper parses it: %v", b.Err)
		return
	}
	wantVer := refForwardingVersion(reqVer, hasBody, prot)
	if gotVer != wantVer {
		sig := "version"
		if hasBody && reqVer >= 128 {
			sig = "requested-byte>=128"
		}
		r.Fail("forwarding-version-differs-from-velocity", sig, "requested version byte %d (body=%v), client protocol %d: Gate chose %d, Velocity chooses %d", reqVer, hasBody, prot, gotVer, wantVer)
		return
	}
	u := offlineUUID(name)
	if gotIP != cl.IP || gotUUID != [16]byte(u) || gotName != name {
		r.Fail("forwarding-fields-wrong", "fields", "forwarded ip/uuid/name = %q/%x/%q, want %q/%x/%q", gotIP, gotUUID, gotName, cl.IP, u[:], name)
		return
	}
	if gotVer < 2 && b.Len() != 0 {
		r.Fail("forwarding-data-malformed", "trailing", "%d trailing bytes after the properties for version %d", b.Len(), gotVer)
		return
	}
	if len(cl.JoinGames) == 0 {
		r.Fail("join-failed", "join", "forwarding succeeded but the player did not join: %s", desc())
		return
	}
	r.State(fmt.Sprintf("req%d body%v p%d => %d", reqVer, hasBody, prot, gotVer))
	r.Res.Sample = map[string]any{"requested": reqVer, "has_body": hasBody, "protocol": int(prot), "chosen": gotVer, "ip": gotIP, "name": gotName, "properties": nProps}
	_ = bytes.Equal
}
