package worlds

import (
	"bytes"
	"context"
	"encoding/binary"
	"fmt"
	"sort"
	"strings"
	"time"

	"go.minekube.com/gate/pkg/edition/java/config"
	"go.minekube.com/gate/pkg/edition/java/proto/packet/chat"
	"go.minekube.com/gate/pkg/edition/java/proto/packet/plugin"
	"go.minekube.com/gate/pkg/edition/java/proto/version"
	"go.minekube.com/gate/pkg/gate/proto"
	"go.minekube.com/gate/pkg/zzverif/simrt"
)

// C26 — the BungeeCord messaging channel behaves like BungeeCord.
//
// Three backends, three players (the requester P0 on s1, P1 on s1 or s2, P2 on s2/s3).
// P0's backend sends tape-generated BungeeCord plugin-channel requests (all sub-channels,
// known and unknown player/server names). Oracle: a table-driven reference of the
// BungeeCord plugin-messaging contract as ported by Velocity predicts the response bytes
// and the connection that must receive them, the framing and recipients of forwarded
// payloads (once per target server, on a backend connection, never to a client), and side
// effects (kick, connect); unknown targets produce nothing and no crash.
func init() {
	Register(&Scenario{Prop: "C26", Desc: "BungeeCord plugin channel behaves like BungeeCord/Velocity", Run: runC26,
		Quick: 400, Thorough: 60000, Crash: true,
		Real:  "proxy backend play handler -> bungeecord.MessageResponder.Process, bungeeMessageResponderAdapter/bungeeServer (server/player providers, connect, kick, broadcast)",
		Model: "client/backend actors; reference table of sub-channel semantics (BungeeCord spec / Velocity BungeeCordMessageResponder)"})
}

func jutf(s string) []byte {
	b := binary.BigEndian.AppendUint16(nil, uint16(len(s)))
	return append(b, s...)
}

func cat(parts ...[]byte) []byte {
	var out []byte
	for _, p := range parts {
		out = append(out, p...)
	}
	return out
}

func i32(v int) []byte { return binary.BigEndian.AppendUint32(nil, uint32(v)) }
func i16(v int) []byte { return binary.BigEndian.AppendUint16(nil, uint16(v)) }

func runC26(r *Run) {
	prots := []proto.Protocol{version.Minecraft_1_20.Protocol, version.Minecraft_1_20_2.Protocol, version.Minecraft_1_12_2.Protocol, version.Minecraft_1_21.Protocol, version.Minecraft_1_15.Protocol}
	prot := prots[r.W.Pick(len(prots))]
	chName := "bungeecord:main"
	if prot.Lower(version.Minecraft_1_13) {
		chName = "BungeeCord"
	}
	servers := []string{"s1", "s2", "s3"}
	w := newClassic(r, servers, func(cfg *config.Config) {
		cfg.Try = []string{"s1"}
		cfg.ForcedHosts = map[string][]string{"s1.example.com": {"s1"}, "s2.example.com": {"s2"}, "s3.example.com": {"s3"}}
		cfg.BungeePluginChannelEnabled = true
	})
	proxyEvents(w)
	w.capturePanics()
	names := []string{"Req", "Other", "Third"}
	homes := []string{"s1", []string{"s1", "s2"}[r.W.Pick(2)], []string{"s2", "s3"}[r.W.Pick(2)]}
	type recv struct {
		where string // "backend:<server>:<player>" or "client:<player>"
		data  []byte
		seq   int
	}
	var got []recv
	isBungee := func(pm *plugin.Message) bool {
		return strings.EqualFold(pm.Channel, "bungeecord:main") || strings.EqualFold(pm.Channel, "BungeeCord")
	}
	clients := make([]*clientModel, 3)
	chatAtClient := map[string]int{}
	for _, sname := range servers {
		sname := sname
		w.backends[sname].Beh.OnJoined = func(bc *backendConn) {
			bc.OnPacket = func(rec *pktRec) {
				if pm, ok := rec.Packet.(*plugin.Message); ok && isBungee(pm) {
					got = append(got, recv{where: "backend:" + sname + ":" + bc.PlayerName, data: append([]byte(nil), pm.Data...), seq: rec.Seq})
				}
			}
		}
	}
	switchInFlight := r.W.Pick(4) == 0
	hangNow := false
	w.backends["s3"].NextBeh = func(int) backendBehavior {
		b := w.backends["s3"].Beh
		if hangNow {
			b.DialHang = true
		}
		return b
	}
	joined := 0
	release := false
	for i := range names {
		i := i
		clients[i] = w.addClient(names[i], prot, func(c *clientModel) {
			c.Host = homes[i] + ".example.com"
			c.OnPacket = func(rec *pktRec) {
				if pm, ok := rec.Packet.(*plugin.Message); ok && isBungee(pm) {
					got = append(got, recv{where: "client:" + c.Name, data: append([]byte(nil), pm.Data...), seq: rec.Seq})
				}
				switch rec.Packet.(type) {
				case *chat.SystemChat, *chat.LegacyChat:
					chatAtClient[c.Name]++
				}
			}
			if !c.Login() {
				joined++
				return
			}
			c.StartReader()
			c.WaitConnected(1)
			joined++
			for !release && c.Phase != "closed" {
				simrt.Sleep(20*time.Millisecond, "c26.stay")
			}
		})
	}
	// requests
	type request struct {
		sub     string
		payload []byte
		desc    string
	}
	pick := func(opts ...string) string { return opts[r.W.Pick(len(opts))] }
	nReq := 1 + r.W.Pick(5)
	var reqs []request
	for i := 0; i < nReq; i++ {
		sub := pick("IP", "IPOther", "UUID", "UUIDOther", "PlayerCount", "PlayerList", "GetServers", "GetServer", "GetPlayerServer", "ServerIP", "Forward", "ForwardToPlayer", "KickPlayer", "Connect", "Message", "Bogus")
		pl := pick("Other", "Third", "Req", "Nobody")
		sv := pick("s1", "s2", "s3", "nowhere")
		tagged := []byte(fmt.Sprintf("FWD-%d-%d", i, r.W.Pick(1000)))
		var p []byte
		d := sub
		switch sub {
		case "IP", "UUID", "GetServers", "GetServer", "Bogus":
			p = jutf(sub)
		case "IPOther", "UUIDOther", "GetPlayerServer":
			p, d = cat(jutf(sub), jutf(pl)), sub+"("+pl+")"
		case "PlayerCount", "PlayerList":
			t := pick(sv, "ALL")
			p, d = cat(jutf(sub), jutf(t)), sub+"("+t+")"
		case "ServerIP", "Connect":
			p, d = cat(jutf(sub), jutf(sv)), sub+"("+sv+")"
		case "Forward":
			t := pick(sv, "ALL", "ONLINE")
			p, d = cat(jutf(sub), jutf(t), jutf("my:chan"), i16(len(tagged)), tagged), sub+"("+t+")"
		case "ForwardToPlayer":
			p, d = cat(jutf(sub), jutf(pl), jutf("my:chan"), i16(len(tagged)), tagged), sub+"("+pl+")"
		case "KickPlayer":
			p, d = cat(jutf(sub), jutf(pl), jutf("bye "+pl)), sub+"("+pl+")"
		case "Message":
			t := pick(pl, "ALL")
			p, d = cat(jutf(sub), jutf(t), jutf("hello "+t)), sub+"("+t+")"
		}
		reqs = append(reqs, request{sub, p, d})
	}
	sender := false
	w.s.GoNamed("requester", func() {
		defer func() { sender = true }()
		for joined < 3 {
			simrt.Sleep(10*time.Millisecond, "c26.wait-joins")
		}
		simrt.Sleep(100*time.Millisecond, "c26.settle")
		var bc *backendConn
		for _, c := range w.backends["s1"].Conns {
			if c.PlayerName == "Req" && c.Live() {
				bc = c
			}
		}
		if bc == nil {
			return
		}
		if switchInFlight {
			// the requester's player has a server switch under way for the whole exchange (the
			// dial to s3 hangs until its timeout): requests still come from, and answers still
			// go to, the server it is connected to
			if pl := w.p.PlayerByName("Req"); pl != nil {
				r.Op("switch-in-flight")
				hangNow = true
				simrt.Go(func() {
					ctx, cancel := context.WithTimeout(context.Background(), 8*time.Second)
					defer cancel()
					_, _ = pl.CreateConnectionRequest(w.p.Server("s3")).Connect(ctx)
				})
				simrt.Sleep(50*time.Millisecond, "c26.switch-started")
			}
		}
		for _, q := range reqs {
			r.Op(q.desc)
			_ = bc.send(&plugin.Message{Channel: chName, Data: q.payload})
			simrt.Sleep(300*time.Millisecond, "c26.between-requests") // one request at a time
		}
		simrt.Sleep(500*time.Millisecond, "c26.drain")
		release = true
	})
	why := w.s.RunUntil(120*time.Second, func() bool { return sender && w.allClientsDone() })
	if why == "steps" {
		r.Inconclusive("step budget exhausted")
		return
	}
	if r.CheckDeadlock() {
		return
	}
	if len(w.panics) > 0 {
		r.Fail("bungee-handler-panicked", "recovered-panic", "a backend's BungeeCord message made the proxy's read loop panic (recovered and logged, the message is dropped): %s", w.panics[0])
		return
	}
	for i, c := range clients {
		if len(c.JoinGames) == 0 {
			r.Fail("join-failed", "join", "player %s did not join %s: %v kick %q", names[i], homes[i], clientPhases(w), c.KickText())
			return
		}
	}
	// ---- reference (evaluated against the initial placement; requests that change the
	// placement - Connect, KickPlayer - end the comparison for later requests) ----
	home := map[string]string{}
	wantChat := map[string]int{}
	ipOf := map[string]string{}
	for i, n := range names {
		home[n] = homes[i]
		ipOf[n] = clients[i].IP
	}
	onServer := func(s string) []string {
		var out []string
		for _, n := range names {
			if home[n] == s {
				out = append(out, n)
			}
		}
		return out
	}
	type expect struct {
		where   string // prefix: "backend:<server>" (any connection of that server) or exact
		data    []byte
		setData bool // PlayerList: compare as a set
	}
	var want []expect
	stop := false
	for _, q := range reqs {
		if stop {
			break
		}
		b := q.payload
		readUTF := func() string {
			n := int(binary.BigEndian.Uint16(b))
			s := string(b[2 : 2+n])
			b = b[2+n:]
			return s
		}
		sub := readUTF()
		toReq := func(data []byte) { want = append(want, expect{where: "backend:s1:Req", data: data}) }
		switch sub {
		case "IP":
			toReq(cat(jutf("IP"), jutf(ipOf["Req"]), i32(clients[0].wirePort())))
		case "IPOther":
			if n := readUTF(); home[n] != "" {
				toReq(cat(jutf("IPOther"), jutf(n), jutf(ipOf[n]), i32(clientByName(clients, n).wirePort())))
			}
		case "UUID":
			u := offlineUUID("Req")
			toReq(cat(jutf("UUID"), jutf(fmt.Sprintf("%x", u[:]))))
		case "UUIDOther":
			if n := readUTF(); home[n] != "" {
				u := offlineUUID(n)
				toReq(cat(jutf("UUIDOther"), jutf(n), jutf(fmt.Sprintf("%x", u[:]))))
			}
		case "PlayerCount":
			t := readUTF()
			if t == "ALL" {
				toReq(cat(jutf("PlayerCount"), jutf("ALL"), i32(3)))
			} else if t != "nowhere" {
				toReq(cat(jutf("PlayerCount"), jutf(t), i32(len(onServer(t)))))
			}
		case "PlayerList":
			t := readUTF()
			var l []string
			if t == "ALL" {
				l = names
			} else if t != "nowhere" {
				l = onServer(t)
			} else {
				break
			}
			want = append(want, expect{where: "backend:s1:Req", data: cat(jutf("PlayerList"), jutf(t), jutf(strings.Join(l, ", "))), setData: true})
		case "GetServers":
			want = append(want, expect{where: "backend:s1:Req", data: cat(jutf("GetServers"), jutf("s1, s2, s3")), setData: true})
		case "GetServer":
			toReq(cat(jutf("GetServer"), jutf("s1")))
		case "GetPlayerServer":
			if n := readUTF(); home[n] != "" {
				toReq(cat(jutf("GetPlayerServer"), jutf(n), jutf(home[n])))
			}
		case "ServerIP":
			if sv := readUTF(); sv != "nowhere" {
				a := w.backends[sv].addr.String()
				host := a[:strings.LastIndexByte(a, ':')]
				toReq(cat(jutf("ServerIP"), jutf(sv), jutf(host), i16(25565)))
			}
		case "Forward":
			t := readUTF()
			fwd := b // UTF channel + short len + data, unchanged
			var targets []string
			if t == "ALL" || t == "ONLINE" {
				targets = []string{"s2", "s3"} // everything but the sender's server
			} else if t != "nowhere" {
				targets = []string{t}
			}
			for _, sv := range targets {
				if len(onServer(sv)) > 0 { // only servers with a player have a connection to carry it
					want = append(want, expect{where: "backend:" + sv, data: fwd})
				}
			}
		case "ForwardToPlayer":
			if n := readUTF(); home[n] != "" {
				want = append(want, expect{where: "backend:" + home[n] + ":" + n, data: b})
			}
		case "KickPlayer", "Connect":
			stop = true // placement changes: later requests are not compared
		case "Message":
			// the target is a player name (or ALL): that player gets one chat message
			t := readUTF()
			for _, n := range names {
				if t == "ALL" || t == n {
					wantChat[n]++
				}
			}
		}
	}
	desc := func() string {
		var gs, ws, rq []string
		for _, g := range got {
			gs = append(gs, fmt.Sprintf("%s<-%q", g.where, g.data))
		}
		for _, e := range want {
			ws = append(ws, fmt.Sprintf("%s<-%q", e.where, e.data))
		}
		for _, q := range reqs {
			rq = append(rq, q.desc)
		}
		return fmt.Sprintf("protocol=%d homes=%v requests=%v expected=%v observed=%v", prot, homes, rq, ws, gs)
	}
	// every expected delivery must be matched by exactly one observed delivery, in order per receiver
	used := make([]bool, len(got))
	for _, e := range want {
		found := false
		for i, g := range got {
			if used[i] || !strings.HasPrefix(g.where, e.where) {
				continue
			}
			if bytes.Equal(g.data, e.data) || (e.setData && sameSet(g.data, e.data)) {
				used[i], found = true, true
				break
			}
		}
		if !found {
			sig := "response"
			switch {
			case bytes.HasPrefix(e.data, jutf("my:chan")):
				sig = "forward"
			default:
				n := int(binary.BigEndian.Uint16(e.data))
				sig = string(e.data[2 : 2+n])
			}
			r.Fail("bungee-delivery-missing-or-wrong", sig, "expected %s to receive %q: %s", e.where, e.data, desc())
			return
		}
	}
	if !stop {
		for i, g := range got {
			if !used[i] {
				sig := "extra"
				if strings.HasPrefix(g.where, "client:") {
					sig = "bungee-message-sent-to-a-client"
				}
				r.Fail("bungee-unexpected-delivery", sig, "%s received %q which the BungeeCord contract does not call for: %s", g.where, g.data, desc())
				return
			}
		}
	}
	if !stop && !switchInFlight { // (a failed switch tells the player so in chat)
		for _, n := range names {
			if chatAtClient[n] != wantChat[n] {
				r.Fail("bungee-delivery-missing-or-wrong", "message", "Message/ALL requests call for %d chat message(s) to %s, its client received %d: %s", wantChat[n], n, chatAtClient[n], desc())
				return
			}
		}
	}
	r.State(fmt.Sprintf("p%d %v n%d", prot, homes, nReq))
	var rq []string
	for _, q := range reqs {
		rq = append(rq, q.desc)
	}
	r.Res.Sample = map[string]any{"protocol": int(prot), "homes": homes, "requests": rq, "deliveries": len(got)}
	_ = sort.Strings
}

func sameSet(a, b []byte) bool {
	// both are UTF strings sequences whose last string is a ", "-separated list
	split := func(x []byte) (string, []string) {
		var parts []string
		for len(x) >= 2 {
			n := int(binary.BigEndian.Uint16(x))
			if 2+n > len(x) {
				break
			}
			parts = append(parts, string(x[2:2+n]))
			x = x[2+n:]
		}
		if len(parts) == 0 {
			return "", nil
		}
		l := strings.Split(parts[len(parts)-1], ", ")
		sort.Strings(l)
		return strings.Join(parts[:len(parts)-1], "|"), l
	}
	ha, la := split(a)
	hb, lb := split(b)
	return ha == hb && strings.Join(la, ",") == strings.Join(lb, ",")
}

func clientByName(cs []*clientModel, n string) *clientModel {
	for _, c := range cs {
		if c.Name == n {
			return c
		}
	}
	return cs[0]
}

func (c *clientModel) wirePort() int { return 40000 + c.idx }
