#!/usr/bin/env python3
# Rewrites the generated block of DESIGN.md (fix list, known findings, seeded-change table) from the
# committed records: known-findings.json, seeded/*/meta.json, tools/checks.json, tools/na.json.
import json, glob, os, re, subprocess
V='/verif'
kf=json.load(open(f'{V}/known-findings.json'))
out=[]
ck=json.load(open(f'{V}/tools/checks.json'))
man=json.load(open(f'{V}/MANIFEST.json'))
lvl={c['property_id']:(c.get('level_claimed') or {}).get('category','') for c in man['checks']}
out.append('### 12.0 Per-property status (as built)\n')
out.append('| id | status | what the check does (from MANIFEST level text) |\n|---|---|---|')
for i in range(1,45):
    pid=f'C{i:02d}'
    if pid in ck:
        out.append(f"| {pid} | claimed ({lvl.get(pid,'')}) | {ck[pid]['text']} |")
    else:
        na=[n for n in man['not_applicable'] if n['property_id']==pid]
        out.append(f"| {pid} | not claimed | {na[0]['reason'] if na else ''} |")
out.append('')
out.append('### 12.1 Defects repaired in /repo (`fix:` commits)\n')
out.append('Each line is the `fixed:` record from `known-findings.json` (property, commit, what failed, and the violation class/signature the check reported before the repair). A fixed entry suppresses nothing.\n')
for f in kf['fixed']:
    out.append('- '+f[len('fixed: '):] if f.startswith('fixed: ') else '- '+f)
out.append('\n### 12.2 Known findings (genuine defects recorded, not repaired)\n')
out.append('| property | violation class | signature (regexp) | what fails |\n|---|---|---|---|')
for f in kf['findings']:
    out.append(f"| {f['property']} | {f['class']} | `{f['sig']}` | {f['what']} |")
out.append('\n### 12.3 Seeded changes (sub-agent mutation waves) and which check catches them\n')
out.append('Every change below was written by a fresh sub-agent that saw only the property text and a scratch worktree; it compiles and passes the existing tests. `patch.diff`, the agent\'s demo and `meta.json` are under `/verif/seeded/<case>/`.\n')
out.append('| case | files touched | detected | note |\n|---|---|---|---|')
for d in sorted(glob.glob(f'{V}/seeded/*/meta.json')):
    m=json.load(open(d))
    case=os.path.basename(os.path.dirname(d))
    out.append(f"| {case} | {', '.join(os.path.basename(x) for x in m['files'])} | {m['detected']} | {m['note']} |")
block='\n'.join(out)+'\n'
p=f'{V}/DESIGN.md'
s=open(p).read()
b,e='<!-- BEGIN GENERATED -->','<!-- END GENERATED -->'
if b in s:
    s=s[:s.index(b)+len(b)]+'\n'+block+s[s.index(e):]
else:
    s+=f'\n{b}\n{block}{e}\n'
open(p,'w').write(s)
print('generated block:',len(block),'bytes')
