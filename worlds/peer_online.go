package worlds

import (
	"bytes"
	"crypto/rand"
	"crypto/rsa"
	"crypto/sha1"
	"crypto/x509"
	"encoding/hex"
	"encoding/pem"
	"fmt"
	"io"
	"math/big"
	"net"
	"net/http"
	"strings"
	"sync"
	"time"

	"go.minekube.com/gate/pkg/edition/java/auth"
	"go.minekube.com/gate/pkg/edition/java/proto/packet"
	"go.minekube.com/gate/pkg/zzverif/mcpeer"
	"go.minekube.com/gate/pkg/zzverif/simrt"
)

// onlineCreds scripts how the client answers an EncryptionRequest (online mode).
type onlineCreds struct {
	Respond func(c *clientModel, req *packet.EncryptionRequest)
}

func (o *onlineCreds) respond(c *clientModel, req *packet.EncryptionRequest) {
	if o.Respond != nil {
		o.Respond(c, req)
	}
}

var (
	proxyKeyOnce sync.Once
	proxyKey     *rsa.PrivateKey
	otherKey     *rsa.PrivateKey
)

// proxyRSAKey returns a per-process key pair for the proxy (generation is expensive).
func proxyRSAKey() (*rsa.PrivateKey, *rsa.PrivateKey) {
	proxyKeyOnce.Do(func() {
		parse := func(s string) *rsa.PrivateKey {
			b, _ := pem.Decode([]byte(s))
			k, err := x509.ParsePKCS1PrivateKey(b.Bytes)
			if err != nil {
				panic(err)
			}
			return k
		}
		proxyKey, otherKey = parse(testKey0), parse(testKey1)
	})
	return proxyKey, otherKey
}

// javaDigest is the harness's own implementation of the vanilla server-id hash:
// new BigInteger(sha1(serverId + secret + publicKey)).toString(16) with Java's signed
// two's-complement interpretation.
func javaDigest(secret, publicKey []byte) string {
	h := sha1.New()
	h.Write(secret)
	h.Write(publicKey)
	sum := h.Sum(nil)
	n := new(big.Int).SetBytes(sum)
	if sum[0]&0x80 != 0 {
		// negative in two's complement: value - 2^160
		n.Sub(n, new(big.Int).Lsh(big.NewInt(1), 160))
	}
	return n.Text(16) // big.Int.Text renders "-abc" for negatives, no leading zeros: same as Java
}

// sessionServer is the Mojang session-server model (an http.RoundTripper).
type sessionServer struct {
	w         *classicWorld
	announced map[string]string // serverId|lower(username) -> undashed uuid
	Queries   []sessionQuery
	Mode      func(n int) string // outcome for the n-th query: "", "204", "401", "500", "error", "hang", "slow"
}

type sessionQuery struct {
	Seq      int
	ServerID string
	Username string
	IP       string
	Outcome  string
}

func (s *sessionServer) announce(serverID, username string, id [16]byte) {
	s.announced[serverID+"|"+username] = hex.EncodeToString(id[:])
}

type bodyReader struct{ *bytes.Reader }

func (bodyReader) Close() error { return nil }

func (s *sessionServer) RoundTrip(req *http.Request) (*http.Response, error) {
	q := req.URL.Query()
	rec := sessionQuery{Seq: s.w.nextSeq(), ServerID: q.Get("serverId"), Username: q.Get("username"), IP: q.Get("ip")}
	mode := ""
	if s.Mode != nil {
		mode = s.Mode(len(s.Queries))
	}
	mk := func(code int, body string) *http.Response {
		return &http.Response{StatusCode: code, Status: fmt.Sprint(code), Proto: "HTTP/1.1", ProtoMajor: 1, ProtoMinor: 1,
			Header: http.Header{}, Body: bodyReader{bytes.NewReader([]byte(body))}, ContentLength: int64(len(body)), Request: req}
	}
	finish := func(outcome string, resp *http.Response, err error) (*http.Response, error) {
		rec.Outcome = outcome
		s.Queries = append(s.Queries, rec)
		return resp, err
	}
	switch mode {
	case "hang":
		s.w.r.Fault("session_server_hang")
		<-req.Context().Done()
		simrt.Resumed("session.hang")
		return finish("hang", nil, req.Context().Err())
	case "error":
		s.w.r.Fault("session_server_transport_error")
		return finish("error", nil, &net.OpError{Op: "dial", Net: "tcp", Err: io.ErrUnexpectedEOF})
	case "500":
		s.w.r.Fault("session_server_5xx")
		return finish("500", mk(500, "oops"), nil)
	case "401":
		s.w.r.Fault("session_server_401")
		return finish("401", mk(401, ""), nil)
	case "204":
		s.w.r.Fault("session_server_204")
		return finish("204", mk(204, ""), nil)
	case "slow":
		s.w.r.Fault("session_server_slow")
		simrt.Sleep(time.Duration(1+s.w.r.F.Pick(3000))*time.Millisecond, "session.slow")
		if req.Context().Err() != nil {
			return finish("slow-cancelled", nil, req.Context().Err())
		}
	}
	id, ok := s.announced[rec.ServerID+"|"+rec.Username]
	if !ok {
		return finish("204-unknown", mk(204, ""), nil)
	}
	body := fmt.Sprintf(`{"id":"%s","name":"%s","properties":[{"name":"textures","value":"dGV4","signature":"c2ln"}]}`, id, rec.Username)
	return finish("200", mk(200, body), nil)
}

// newOnlineAuthenticator builds the real auth.Authenticator wired to the model.
func newOnlineAuthenticator(ss *sessionServer) (auth.Authenticator, error) {
	key, _ := proxyRSAKey()
	// the URL function is wired the way proxy.New / Proxy.init wire it
	return auth.New(auth.Options{PrivateKey: key, Client: &http.Client{Transport: ss}, HasJoinedURLFn: auth.CustomHasJoinedURL(nil)})
}

// cryptConn wraps a net.Conn with the harness's own AES/CFB8 (independent of Gate's).
type cryptConn struct {
	net.Conn
	enc, dec *mcpeer.CFB8
}

func (c *cryptConn) Read(p []byte) (int, error) {
	n, err := c.Conn.Read(p)
	if n > 0 && c.dec != nil {
		c.dec.XORKeyStream(p[:n], p[:n])
	}
	return n, err
}

func (c *cryptConn) Write(p []byte) (int, error) {
	if c.enc == nil {
		return c.Conn.Write(p)
	}
	q := make([]byte, len(p))
	c.enc.XORKeyStream(q, p)
	return c.Conn.Write(q)
}

// onlineBehaviour describes what an online-mode client does with the EncryptionRequest.
type onlineBehaviour struct {
	Secret       []byte
	ForgeToken   bool      // encrypt a different verify token
	TokenMode    string    // \"\", \"empty\", \"prefix\", \"extended\": other ways of not returning the exact token
	WrongKey     bool      // encrypt with a key that is not the proxy's
	BadSecretLen bool      // 15-byte secret
	SkipJoin     bool      // do not announce to the session server (unauthenticated client)
	AnnounceAs   string    // announce under this username instead of the login name
	UUID         *[16]byte // identity the session server hands out (default onlineUUID(name))
	ServerIDSeen string
	Responded    bool
}

// installOnline makes c behave as an online-mode client. It needs c.conn to be wrapped,
// which Connect does when c.crypt is set.
func installOnline(c *clientModel, ss *sessionServer, ob *onlineBehaviour) {
	c.Online = &onlineCreds{Respond: func(c *clientModel, req *packet.EncryptionRequest) {
		pubAny, err := x509.ParsePKIXPublicKey(req.PublicKey)
		if err != nil {
			c.Err = fmt.Errorf("client cannot parse the proxy's public key: %w", err)
			return
		}
		pub := pubAny.(*rsa.PublicKey)
		if ob.WrongKey {
			_, other := proxyRSAKey()
			pub = &other.PublicKey
		}
		secret := ob.Secret
		if ob.BadSecretLen {
			secret = secret[:15]
		}
		token := req.VerifyToken
		if ob.ForgeToken {
			token = append([]byte{}, token...)
			token[0] ^= 0x55
		}
		switch ob.TokenMode {
		case "empty":
			token = []byte{}
		case "prefix":
			token = append([]byte{}, token[:len(token)/2]...)
		case "extended":
			token = append(append([]byte{}, token...), 0)
		}
		serverID := javaDigest(secret, req.PublicKey)
		ob.ServerIDSeen = serverID
		if !ob.SkipJoin {
			name := c.Name
			if ob.AnnounceAs != "" {
				name = ob.AnnounceAs
			}
			id := onlineUUID(name)
			if ob.UUID != nil {
				id = *ob.UUID
			}
			ss.announce(serverID, name, id)
		}
		encSecret, _ := rsa.EncryptPKCS1v15(rand.Reader, pub, secret)
		encToken, _ := rsa.EncryptPKCS1v15(rand.Reader, pub, token)
		ob.Responded = true
		if c.send(&packet.EncryptionResponse{SharedSecret: encSecret, VerifyToken: encToken}) != nil {
			return
		}
		// vanilla enables the cipher right after sending the response
		if len(secret) == 16 {
			c.crypt.enc, _ = mcpeer.NewCFB8(secret, false)
			c.crypt.dec, _ = mcpeer.NewCFB8(secret, true)
		}
	}}
}

// onlineUUID is the identity the session-server model hands out for a name.
func onlineUUID(name string) [16]byte {
	h := sha1.Sum([]byte("online:" + strings.ToLower(name)))
	var u [16]byte
	copy(u[:], h[:16])
	u[6] = u[6]&0x0f | 0x40
	u[8] = u[8]&0x3f | 0x80
	return u
}

func pubKeyDER(k *rsa.PrivateKey) []byte {
	b, _ := x509.MarshalPKIXPublicKey(&k.PublicKey)
	return b
}
