#!/bin/bash
# usage: saveseed.sh <PROP> <n> <wtdir> <detected_by_quick:yes|no|thorough> "<note>"
prop=$1; n=$2; wt=$3; det=$4; note=$5
d=/verif/seeded/${SEEDPREFIX:-$prop-m}$n
mkdir -p $d
cp $wt/MUTATION$n.diff $d/patch.diff
cp $wt/DEMO$n.md $d/demo.md 2>/dev/null
cp $wt/DEMO${n}_test.go.txt $d/demo_test.go.txt 2>/dev/null
python3 - "$prop" "$n" "$det" "$note" <<'PY'
import json,sys,subprocess
prop,n,det,note=sys.argv[1:5]
import os
d="/verif/seeded/"+os.environ.get("SEEDPREFIX",prop+"-m")+n
files=[l[6:].strip() for l in open(d+"/patch.diff") if l.startswith("+++ b/")]
json.dump({"property":prop,"origin":"sub-agent (property text + scratch worktree only)","files":files,"detected":det,"note":note,
 "base_commit":subprocess.check_output(["git","-C","/repo","rev-parse","--short","HEAD"]).decode().strip()},open(d+"/meta.json","w"),indent=1)
PY
echo saved $d
