package worlds

import (
	"fmt"
	"time"

	"go.minekube.com/gate/pkg/edition/java/proto/packet"
	"go.minekube.com/gate/pkg/edition/java/proto/packet/plugin"
	"go.minekube.com/gate/pkg/edition/java/proto/version"
	"go.minekube.com/gate/pkg/gate/proto"
	"go.minekube.com/gate/pkg/zzverif/simrt"
)

// runC24Fallback — the first backend becomes ready and then kicks the player while the
// client is still in configuration; the proxy falls back to the next server of the try
// list, which takes a while to accept the login. The client keeps sending numbered plugin
// messages all the time. Whatever it sends once the second backend's connection exists is
// "sent before its backend is ready": it must reach that backend exactly once and in order,
// whichever way the proxy buffers it.
func runC24Fallback(r *Run) {
	r.Res.Variant = "fallback-during-configuration"
	prots := []proto.Protocol{version.Minecraft_1_20_2.Protocol, version.Minecraft_1_20_3.Protocol, version.Minecraft_1_21.Protocol, version.Minecraft_1_20_5.Protocol}
	prot := prots[r.W.Pick(len(prots))]
	w := newClassic(r, []string{"lobby", "s2"}, nil)
	proxyEvents(w)
	// the first backend is ready (login done, configuration under way) for a while, then kicks
	kickAfter := time.Duration(5+r.W.Pick(60)) * time.Millisecond
	w.backends["lobby"].Beh.OnConfig = func(bc *backendConn) {
		simrt.Sleep(kickAfter, "c24fb.first-backend-ready")
		r.Fault("backend_kick_config_after_ready")
		_ = bc.send(packet.NewDisconnect(textComp("kicked by lobby during configuration"), bc.w.prot, bc.w.wstate.State))
		_ = bc.conn.Close()
		bc.Phase = "closed"
	}
	w.backends["s2"].Beh.DialDelay = time.Duration(20+r.W.Pick(150)) * time.Millisecond
	loginDelay := time.Duration(r.W.Pick(100)) * time.Millisecond
	var atB []uint32
	w.backends["s2"].Beh.OnLogin = func(bc *backendConn) {
		bc.OnPacket = func(rec *pktRec) {
			if pm, ok := rec.Packet.(*plugin.Message); ok {
				if t, ok := pmTag(pm.Data); ok {
					atB = append(atB, t)
				}
			}
		}
		if loginDelay > 0 {
			simrt.Sleep(loginDelay, "c24fb.slow-login")
		}
	}
	var mustReachB []uint32
	sent := 0
	gap := time.Duration(2+r.W.Pick(9)) * time.Millisecond
	total := 400 // in effect: until the client leaves the configuration phase
	cl := w.addClient("Plug", prot, func(c *clientModel) {
		c.OnConfigEnter = func() {
			if sent > 0 {
				return
			}
			simrt.Go(func() {
				for i := 0; i < total && c.Phase == "config"; i++ {
					tag := uint32(100 + i)
					// the second backend's connection exists: from now on it is the target
					forB := len(w.backends["s2"].Conns) > 0
					r.Op("numbered-message")
					if c.send(&plugin.Message{Channel: "verif:raw", Data: pmBody(tag, 12)}) != nil {
						return
					}
					sent++
					if forB {
						mustReachB = append(mustReachB, tag)
					}
					simrt.Sleep(gap, "c24fb.gap")
				}
			})
		}
		if !c.Login() {
			return
		}
		c.StartReader()
		simrt.Sleep(300*time.Millisecond, "c24fb.play")
		c.Close()
	})
	why := w.s.RunUntil(60*time.Second, func() bool { return w.allClientsDone() })
	if why == "steps" {
		r.Inconclusive("step budget exhausted")
		return
	}
	if r.CheckDeadlock() {
		return
	}
	desc := fmt.Sprintf("protocol=%d sent=%d must-reach-second-backend=%v second-backend-got=%v client=%v kick=%q backends=%s | %s", prot, sent, mustReachB, atB, clientPhases(w), cl.KickText(), w.backends["lobby"].describe(), w.backends["s2"].describe())
	if len(cl.JoinGames) == 0 || len(w.backends["s2"].Conns) == 0 || !w.backends["s2"].Conns[0].Joined {
		// Nothing is wrong with the second backend and nobody closed anything: if the player
		// did not get there, the proxy sent that backend something before it was ready (a
		// play/configuration packet during its login ends the connection).
		r.Fail("early-message-before-backend-ready", "fallback", "the healthy second backend was never joined: %s", desc)
		return
	}
	r.Probe("fallback_completed")
	// order and exactly-once at the second backend
	seen := map[uint32]int{}
	last := uint32(0)
	for _, t := range atB {
		seen[t]++
		if t < last {
			r.Fail("early-message-order", "fallback", "the second backend received message %d after %d: %s", t, last, desc)
			return
		}
		last = t
	}
	for _, t := range mustReachB {
		if seen[t] != 1 {
			r.Fail("early-message-count", "fallback", "message %d was sent when the second backend's connection already existed and reached it %d times: %s", t, seen[t], desc)
			return
		}
	}
	for t, n := range seen {
		if n > 1 {
			r.Fail("early-message-count", "fallback-dup", "message %d reached the second backend %d times: %s", t, n, desc)
			return
		}
	}
	r.State(fmt.Sprintf("fb p%d sent%d b%d", prot, sent, len(atB)))
	r.Res.Sample = map[string]any{"protocol": int(prot), "variant": "fallback", "sent": sent, "must_reach_b": len(mustReachB), "at_b": len(atB)}
}
