package worlds

import (
	"bytes"
	"encoding/binary"
	"fmt"
	"net"
	"strings"
	"time"

	liteconfig "go.minekube.com/gate/pkg/edition/java/lite/config"
	"go.minekube.com/gate/pkg/zzverif/mcpeer"
	"go.minekube.com/gate/pkg/zzverif/simrt"
)

// C31 — Lite forwards the connection unchanged apart from configured rewrites.
//
// Real proxy in Lite mode; the client sends a handshake (optionally with login bytes
// pipelined in the same segment) and then up to 256 KiB of opaque bytes; the backend
// answers with opaque bytes. Route options: PROXY header, virtual-host rewrite, TCPShield
// real-IP. Faults: segmentation (the handshake is split at tape-chosen offsets),
// back-pressure windows, reset of either side mid-stream. Oracle: backend stream =
// [PROXY v2 header with the client's address iff enabled] + handshake (byte-identical unless
// a rewrite applies, then the reference rewrite) + every further client byte; the client
// receives every backend byte; under a reset: prefixes.
func init() {
	Register(&Scenario{Prop: "C31", Desc: "lite forwarding: bytes unchanged apart from configured rewrites", Run: runC31,
		Quick: 400, Thorough: 60000,
		Real:  "proxy handshake handler -> lite.Forward, dialRoute (PROXY header, ModifyVirtualHost, TCPShield real IP), emptyReadBuff, pipe (io.Copy both ways)",
		Model: "raw client and backend actors over simnet; reference PROXY v2 parser and handshake rewrite"})
}

func opaque(r *Run, n int, salt byte) []byte {
	b := make([]byte, n)
	x := uint32(r.W.Pick(1<<20))*2654435761 + uint32(salt)
	for i := range b {
		x = x*1664525 + 1013904223
		b[i] = byte(x >> 16)
	}
	return b
}

func runC31(r *Run) {
	proxyProto := r.W.Pick(3) == 0
	modifyVHost := r.W.Pick(4) == 0
	realIP := r.W.Pick(4) == 0
	backendHost := "backend.internal"
	addr := backendHost + ":25565"
	routes := []liteconfig.Route{{Host: []string{"*.example.com", "play"}, Backend: []string{addr}, ProxyProtocol: proxyProto, ModifyVirtualHost: modifyVHost, TCPShieldRealIP: realIP}}
	w := newLite(r, routes, nil)
	defer w.finish()
	host := []string{"mc.example.com", "MC.Example.Com", "play", "a.b.example.com"}[r.W.Pick(4)]
	suffix := ""
	switch r.W.Pick(4) {
	case 1:
		suffix = "\x00FML\x00"
	case 2:
		suffix = "///198.51.100.4:5555///1700000000"
	}
	wireHost := host + suffix
	nC := r.W.Pick(6)
	nS := r.W.Pick(6)
	var c2s, s2c [][]byte
	size := func() int {
		if r.W.Pick(8) == 0 {
			return 20000 + r.W.Pick(240000)
		}
		return 1 + r.W.Pick(3000)
	}
	for i := 0; i < nC; i++ {
		c2s = append(c2s, opaque(r, size(), byte(i)))
	}
	for i := 0; i < nS; i++ {
		s2c = append(s2c, opaque(r, size(), byte(100+i)))
	}
	pipelined := r.W.Pick(2) == 0 // login bytes in the same write as the handshake
	fault := r.F.Pick(6)          // 4: client reset mid-stream, 5: backend reset mid-stream
	// a quiet period longer than any proxy read timeout, in the middle of the client's stream
	idleAt, idle := -1, time.Duration(0)
	if r.W.Pick(4) == 0 && nC > 1 {
		idleAt, idle = 1+r.W.Pick(nC-1), time.Duration(31+r.W.Pick(90))*time.Second
	}
	window := []int{0, 0, 1, 64, 4096}[r.F.Pick(5)]
	var be *liteBackendConn
	backendDone := false
	w.backend[addr] = &liteBackend{OnConn: func(bc *liteBackendConn) {
		be = bc
		if window > 0 {
			bc.conn.SetWindow(window)
		}
		simrt.Go(func() {
			for i, b := range s2c {
				if fault == 5 && i == len(s2c)/2 {
					r.Fault("backend_reset_midstream")
					bc.conn.Reset()
					break
				}
				r.Op("s2c")
				if _, err := bc.conn.Write(b); err != nil {
					break
				}
				simrt.Yield("c31.backend")
			}
			backendDone = true
		})
		bc.readAll()
	}}
	hs := handshakeFrame(763, wireHost, 25565, 2)
	cl := w.connect("172.30.0.7")
	if window > 0 {
		cl.conn.SetWindow(window)
	}
	clientDone := false
	var sent, attempted []byte
	var writeErr error
	w.s.GoNamed("lclient", func() {
		defer func() { clientDone = true }()
		simrt.Go(func() { cl.readAll() })
		first := append([]byte(nil), hs...)
		rest := c2s
		if pipelined && len(rest) > 0 {
			first = append(first, rest[0]...)
			sent = append(sent, rest[0]...)
			attempted = append(attempted, rest[0]...)
			rest = rest[1:]
		}
		// split the first write at a tape-chosen offset (handshake split across segments)
		if k := r.F.Pick(len(first)); k > 0 && r.F.Pick(2) == 0 {
			r.Fault("handshake_split")
			_, _ = cl.conn.Write(first[:k])
			simrt.Sleep(time.Duration(r.F.Pick(50))*time.Millisecond, "c31.split")
			_, _ = cl.conn.Write(first[k:])
		} else {
			_, _ = cl.conn.Write(first)
		}
		for i, b := range rest {
			if fault == 4 && i == len(rest)/2 {
				r.Fault("client_reset_midstream")
				cl.conn.Reset()
				return
			}
			if i+(len(c2s)-len(rest)) == idleAt {
				r.Probe("idle_longer_than_read_timeout")
				simrt.Sleep(idle, "c31.idle")
			}
			r.Op("c2s")
			attempted = append(attempted, b...)
			if _, err := cl.conn.Write(b); err != nil {
				writeErr = err
				return
			}
			sent = append(sent, b...)
			simrt.Yield("c31.client")
		}
		simrt.Sleep(300*time.Millisecond, "c31.stay")
	})
	why := w.s.RunUntil(60*time.Second+idle, func() bool { return clientDone && (be == nil || backendDone) })
	if why == "steps" {
		r.Inconclusive("step budget exhausted")
		return
	}
	w.s.RunUntil(time.Second, nil)
	if be == nil && fault >= 4 {
		return // the client vanished before the proxy dialled
	}
	if be == nil {
		r.Fail("not-forwarded", "dial", "route matches but no backend connection was made (dials %v)", w.dials)
		return
	}
	got := be.Recv
	lossy := fault >= 4
	if writeErr != nil && !lossy {
		r.Fail("forwarding-ended-by-proxy", fmt.Sprintf("idle=%v", idle > 0), "nobody reset or closed the link, yet the client's write failed with %v after %d forwarded bytes (quiet period %v): the proxy ended the forwarding", writeErr, len(sent), idle)
		return
	}
	// 1. optional PROXY v2 header
	if proxyProto {
		sigv2 := []byte("\r\n\r\n\x00\r\nQUIT\n")
		if len(got) < 16 || !bytes.Equal(got[:12], sigv2) {
			if lossy && len(got) < 16 {
				return
			}
			r.Fail("proxy-header-missing", "proxyproto", "route enables PROXY protocol but the backend stream does not start with a v2 header (first bytes %q)", head(got, 20))
			return
		}
		if got[12] != 0x21 {
			r.Fail("proxy-header-wrong", "proxyproto", "PROXY v2 version/command byte %#x, want 0x21", got[12])
			return
		}
		l := int(binary.BigEndian.Uint16(got[14:16]))
		if len(got) < 16+l {
			if lossy {
				return
			}
			r.Fail("proxy-header-wrong", "proxyproto", "truncated PROXY header")
			return
		}
		body := got[16 : 16+l]
		var srcIP net.IP
		var srcPort int
		switch got[13] {
		case 0x11:
			srcIP, srcPort = net.IP(body[0:4]), int(binary.BigEndian.Uint16(body[8:10]))
		case 0x21:
			srcIP, srcPort = net.IP(body[0:16]), int(binary.BigEndian.Uint16(body[32:34]))
		default:
			r.Fail("proxy-header-wrong", "proxyproto", "PROXY v2 family byte %#x", got[13])
			return
		}
		if !srcIP.Equal(net.ParseIP(cl.IP)) || srcPort != cl.Port {
			r.Fail("proxy-header-wrong", "address", "PROXY header carries %s:%d, the client is %s:%d", srcIP, srcPort, cl.IP, cl.Port)
			return
		}
		got = got[16+l:]
	} else if len(got) >= 12 && bytes.Equal(got[:12], []byte("\r\n\r\n\x00\r\nQUIT\n")) {
		r.Fail("proxy-header-unexpected", "proxyproto", "route does not enable PROXY protocol but the backend received a header")
		return
	}
	// 2. handshake
	wantHost := wireHost
	rewritten := false
	if modifyVHost {
		clean := refCleanHost(wireHost)
		if !strings.EqualFold(clean, backendHost) {
			wantHost = strings.ReplaceAll(wireHost, clean, backendHost)
			rewritten = true
		}
	}
	tcpShield := realIP && strings.Contains(wireHost, "///")
	fr := mcpeer.NewFrameReader()
	fr.Feed(got)
	pl, err := fr.Next()
	if err != nil {
		if lossy {
			return
		}
		r.Fail("handshake-missing", "handshake", "backend stream does not start with a handshake frame (%v; %d bytes)", err, len(got))
		return
	}
	b := mcpeer.NewBuf(pl)
	id, pv, gotHost, gotPort, next := b.VarInt(), b.VarInt(), b.String(), b.U16(), b.VarInt()
	if b.Err != nil || id != 0 || pv != 763 || gotPort != 25565 || next != 2 {
		r.Fail("handshake-altered", "fields", "handshake fields at backend: id=%d protocol=%d port=%d next=%d err=%v", id, pv, gotPort, next, b.Err)
		return
	}
	if tcpShield {
		// The property gives no reference for the TCPShield real-IP rewrite itself; only
		// require that the client's address was put into the host.
		if !strings.Contains(gotHost, "///"+cl.IP+":") {
			r.Fail("realip-rewrite-wrong", "tcpshield", "TCPShield real-IP applies but the backend's handshake host %q does not carry the client address %s", gotHost, cl.IP)
			return
		}
	} else if gotHost != wantHost {
		r.Fail("handshake-altered", fmt.Sprintf("rewrite=%v", rewritten), "backend got handshake host %q, want %q (client sent %q; modifyVirtualHost=%v)", gotHost, wantHost, wireHost, modifyVHost)
		return
	} else if !rewritten && !bytes.HasPrefix(got, hs) {
		r.Fail("handshake-altered", "bytes", "no rewrite applies but the handshake frame at the backend is not byte-identical")
		return
	}
	// 3. every further client byte
	rest := got[len(got)-fr.Buffered():]
	if lossy {
		if !bytes.HasPrefix(attempted, rest) {
			r.Fail("stream-corrupted", "c2s", "under a reset the backend must have received a prefix of the client's bytes (got %d, sent %d)", len(rest), len(sent))
			return
		}
	} else if !bytes.Equal(rest, sent) {
		r.Fail("stream-corrupted", "c2s", "backend received %d bytes after the handshake, client sent %d; equal prefix %d", len(rest), len(sent), commonPrefix(rest, sent))
		return
	}
	var s2cAll []byte
	for _, b := range s2c {
		s2cAll = append(s2cAll, b...)
	}
	if lossy {
		if !bytes.HasPrefix(s2cAll, cl.Recv) {
			r.Fail("stream-corrupted", "s2c", "under a reset the client must have received a prefix of the backend's bytes")
			return
		}
	} else if !bytes.Equal(cl.Recv, s2cAll) {
		r.Fail("stream-corrupted", "s2c", "client received %d bytes, backend sent %d; equal prefix %d", len(cl.Recv), len(s2cAll), commonPrefix(cl.Recv, s2cAll))
		return
	}
	r.State(fmt.Sprintf("pp%v mv%v rip%v pipe%v f%d", proxyProto, modifyVHost, realIP, pipelined, fault))
	r.Res.Sample = map[string]any{"host": wireHost, "proxy_protocol": proxyProto, "modify_vhost": modifyVHost, "real_ip": realIP, "pipelined": pipelined, "c2s_bytes": len(sent), "s2c_bytes": len(s2cAll), "fault": fault, "window": window}
}

func commonPrefix(a, b []byte) int {
	n := 0
	for n < len(a) && n < len(b) && a[n] == b[n] {
		n++
	}
	return n
}
