package simrt

// Tape is a recorded sequence of bounded choices. In generate mode values come from a
// SplitMix64 stream seeded from the run seed and are recorded; in replay mode the
// recorded values are returned (0 beyond the end, which by convention everywhere is the
// "unsurprising" choice: lowest id, no fault, whole segment, no delay). A run is a pure
// function of its tapes and the code.
type Tape struct {
	Rec    []uint32
	pos    int
	state  uint64
	replay bool
	Draws  int
}

func NewTape(seed uint64) *Tape { return &Tape{state: seed} }

func ReplayTape(rec []uint32) *Tape { return &Tape{Rec: rec, replay: true} }

//go:norace
func (t *Tape) next() uint32 {
	t.state += 0x9E3779B97F4A7C15
	z := t.state
	z = (z ^ (z >> 30)) * 0xBF58476D1CE4E5B9
	z = (z ^ (z >> 27)) * 0x94D049BB133111EB
	z ^= z >> 31
	return uint32(z >> 32)
}

// Pick returns a value in [0,n). n<=1 consumes nothing.
//
//go:norace
func (t *Tape) Pick(n int) int {
	if n <= 1 {
		return 0
	}
	t.Draws++
	if t.replay {
		if t.pos >= len(t.Rec) {
			t.pos++
			return 0
		}
		v := t.Rec[t.pos]
		t.pos++
		return int(v % uint32(n))
	}
	v := t.next() % uint32(n)
	t.Rec = append(t.Rec, v)
	t.pos++
	return int(v)
}

// Chance is true with probability num/den; a zero tape value means false.
//
//go:norace
func (t *Tape) Chance(num, den int) bool {
	if num <= 0 {
		return false
	}
	return t.Pick(den) >= den-num
}

// Range returns a value in [lo,hi].
//
//go:norace
func (t *Tape) Range(lo, hi int) int {
	if hi <= lo {
		return lo
	}
	return lo + t.Pick(hi-lo+1)
}

// Bytes fills b with tape bytes.
func (t *Tape) Bytes(b []byte) {
	for i := range b {
		b[i] = byte(t.Pick(256))
	}
}

func (t *Tape) Pos() int { return t.pos }

// SplitMix derives an independent seed.
func SplitMix(seed uint64, stream uint64) uint64 {
	z := seed + 0x9E3779B97F4A7C15*(stream+1)
	z = (z ^ (z >> 30)) * 0xBF58476D1CE4E5B9
	z = (z ^ (z >> 27)) * 0x94D049BB133111EB
	return z ^ (z >> 31)
}
