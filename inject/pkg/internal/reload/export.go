//go:build verif

package reload

import (
	"context"
	"time"
)

// VerifEventWatcher exposes the unexported watcher seam to the simulation harness.
type VerifEventWatcher = eventWatcher

// VerifWatch runs the real watch loop with an injected watcher factory.
func VerifWatch(ctx context.Context, path string, cb func() error, newWatcher func(dir string) (VerifEventWatcher, error), reconcile time.Duration) error {
	return watchWithOptions(ctx, path, cb, watchOptions{reconcileInterval: reconcile, newWatcher: newWatcher})
}
