// Prototype instrumenter: rewrites synchronisation points of selected gate packages
// into simrt calls and emits an overlay.json. Throw-away; validates DESIGN §2.3.
package main

import (
	"bytes"
	"encoding/json"
	"flag"
	"fmt"
	"go/ast"
	"go/format"
	"go/token"
	"go/types"
	"os"
	"path/filepath"
	"strings"

	"golang.org/x/tools/go/ast/astutil"
	"golang.org/x/tools/go/packages"
)

const simrtPath = "verif.local/simrt"

type stats struct {
	lock, unlock, locker, once, cond, gostmt, recv, send, sel, wg, sleep, maprange, mapskip, entry, dial int
}

var st stats

func main() {
	out := flag.String("out", "/tmp/proto/work", "output dir")
	dir := flag.String("dir", "/repo", "module dir")
	flag.Parse()
	cfg := &packages.Config{
		Mode: packages.NeedName | packages.NeedFiles | packages.NeedCompiledGoFiles | packages.NeedSyntax | packages.NeedTypes | packages.NeedTypesInfo | packages.NeedImports,
		Dir:  *dir,
	}
	pkgs, err := packages.Load(cfg, flag.Args()...)
	if err != nil {
		panic(err)
	}
	overlay := map[string]string{}
	for _, p := range pkgs {
		if len(p.Errors) > 0 {
			fmt.Fprintln(os.Stderr, "load errors in", p.PkgPath, p.Errors)
			os.Exit(2)
		}
		for i, f := range p.Syntax {
			name := p.CompiledGoFiles[i]
			if strings.HasSuffix(name, "_test.go") {
				continue
			}
			changed := rewriteFile(p, f)
			if !changed {
				continue
			}
			var buf bytes.Buffer
			// keep build constraints, drop other comments (free-floating comments break after edits)
			var header []string
			for _, cg := range f.Comments {
				for _, c := range cg.List {
					if c.Pos() < f.Package && (strings.HasPrefix(c.Text, "//go:build") || strings.HasPrefix(c.Text, "// +build")) {
						header = append(header, c.Text)
					}
				}
			}
			f.Comments = nil
			stripDocs(f)
			if err := format.Node(&buf, p.Fset, f); err != nil {
				fmt.Fprintln(os.Stderr, "format", name, err)
				os.Exit(2)
			}
			rel, _ := filepath.Rel(*dir, name)
			dst := filepath.Join(*out, rel)
			_ = os.MkdirAll(filepath.Dir(dst), 0o755)
			src := buf.String()
			if len(header) > 0 {
				src = strings.Join(header, "\n") + "\n\n" + src
			}
			if err := os.WriteFile(dst, []byte(src), 0o644); err != nil {
				panic(err)
			}
			overlay[name] = dst
		}
	}
	b, _ := json.MarshalIndent(map[string]any{"Replace": overlay}, "", " ")
	_ = os.WriteFile(filepath.Join(*out, "overlay.json"), b, 0o644)
	fmt.Printf("files=%d stats=%+v\n", len(overlay), st)
}

func stripDocs(f *ast.File) {
	ast.Inspect(f, func(n ast.Node) bool {
		switch x := n.(type) {
		case *ast.FuncDecl:
			x.Doc = keepDirectives(x.Doc)
		case *ast.GenDecl:
			x.Doc = keepDirectives(x.Doc)
		case *ast.Field:
			x.Doc, x.Comment = nil, nil
		case *ast.TypeSpec:
			x.Doc, x.Comment = nil, nil
		case *ast.ValueSpec:
			x.Doc, x.Comment = nil, nil
		case *ast.ImportSpec:
			x.Doc, x.Comment = nil, nil
		}
		return true
	})
	f.Doc = nil
}

func keepDirectives(cg *ast.CommentGroup) *ast.CommentGroup {
	if cg == nil {
		return nil
	}
	var keep []*ast.Comment
	for _, c := range cg.List {
		if strings.HasPrefix(c.Text, "//go:") {
			keep = append(keep, c)
		}
	}
	if len(keep) == 0 {
		return nil
	}
	return &ast.CommentGroup{List: keep}
}

func sel(x string, name string) *ast.SelectorExpr {
	return &ast.SelectorExpr{X: ast.NewIdent(x), Sel: ast.NewIdent(name)}
}
func call(fn string, args ...ast.Expr) *ast.CallExpr {
	return &ast.CallExpr{Fun: sel("simrt", fn), Args: args}
}
func callStmt(fn string, args ...ast.Expr) ast.Stmt { return &ast.ExprStmt{X: call(fn, args...)} }

// methodOf returns (pkgpath, recvTypeName, methodName) for a method call selector.
func methodOf(info *types.Info, s *ast.SelectorExpr) (string, string, string, bool) {
	sl := info.Selections[s]
	if sl == nil || sl.Kind() != types.MethodVal {
		return "", "", "", false
	}
	fn, ok := sl.Obj().(*types.Func)
	if !ok {
		return "", "", "", false
	}
	sig := fn.Type().(*types.Signature)
	if sig.Recv() == nil {
		return "", "", "", false
	}
	t := sig.Recv().Type()
	if p, ok := t.(*types.Pointer); ok {
		t = p.Elem()
	}
	n, ok := t.(*types.Named)
	if !ok || n.Obj().Pkg() == nil {
		return "", "", "", false
	}
	return n.Obj().Pkg().Path(), n.Obj().Name(), fn.Name(), true
}

func isChanRecv(e ast.Expr) (*ast.UnaryExpr, bool) {
	u, ok := e.(*ast.UnaryExpr)
	return u, ok && u.Op == token.ARROW
}

func keyOrderable(t types.Type) bool {
	switch u := t.Underlying().(type) {
	case *types.Basic:
		return true
	case *types.Array:
		return keyOrderable(u.Elem())
	case *types.Struct:
		for i := 0; i < u.NumFields(); i++ {
			if !keyOrderable(u.Field(i).Type()) {
				return false
			}
		}
		return true
	}
	return false // pointers, interfaces, chans: no canonical order
}

func rewriteFile(p *packages.Package, f *ast.File) bool {
	info := p.TypesInfo
	changed := false
	inSelectComm := map[ast.Node]bool{}
	labeled := map[ast.Stmt]bool{}
	ast.Inspect(f, func(n ast.Node) bool {
		switch x := n.(type) {
		case *ast.CommClause:
			if x.Comm != nil {
				ast.Inspect(x.Comm, func(m ast.Node) bool {
					if m != nil {
						inSelectComm[m] = true
					}
					return true
				})
			}
		case *ast.LabeledStmt:
			labeled[x.Stmt] = true
		}
		return true
	})
	tmp := 0
	fresh := func(base string) *ast.Ident { tmp++; return ast.NewIdent(fmt.Sprintf("%s__%d", base, tmp)) }

	astutil.Apply(f, func(c *astutil.Cursor) bool {
		switch x := c.Node().(type) {
		case *ast.FuncDecl:
			if x.Body != nil && x.Name.Name != "init" && x.Name.Name != "String" && x.Name.Name != "Error" {
				x.Body.List = append([]ast.Stmt{callStmt("Yield")}, x.Body.List...)
				st.entry++
				changed = true
			}
		case *ast.CommClause:
			if x.Comm != nil {
				x.Body = append([]ast.Stmt{callStmt("Resumed")}, x.Body...)
				st.sel++
				changed = true
			}
		}
		return true
	}, func(c *astutil.Cursor) bool {
		switch x := c.Node().(type) {
		case *ast.CallExpr:
			s, ok := x.Fun.(*ast.SelectorExpr)
			if !ok {
				return true
			}
			// time.Sleep
			if id, ok := s.X.(*ast.Ident); ok && s.Sel.Name == "Sleep" {
				if pn, ok := info.Uses[id].(*types.PkgName); ok && pn.Imported().Path() == "time" {
					c.Replace(call("Sleep", x.Args...))
					st.sleep++
					changed = true
					return true
				}
			}
			pkg, recv, name, ok := methodOf(info, s)
			if !ok {
				return true
			}
			mv := func(m string) ast.Expr { return &ast.SelectorExpr{X: s.X, Sel: ast.NewIdent(m)} }
			switch {
			case pkg == "sync" && (recv == "Mutex" || recv == "RWMutex") && len(x.Args) == 0:
				switch name {
				case "Lock":
					c.Replace(call("Lock", mv("TryLock"), mv("Lock")))
					st.lock++
				case "RLock":
					c.Replace(call("Lock", mv("TryRLock"), mv("RLock")))
					st.lock++
				case "Unlock":
					c.Replace(call("Unlock", mv("Unlock")))
					st.unlock++
				case "RUnlock":
					c.Replace(call("Unlock", mv("RUnlock")))
					st.unlock++
				default:
					return true
				}
				changed = true
			case pkg == "sync" && recv == "Locker":
				switch name {
				case "Lock":
					c.Replace(call("LockLocker", s.X))
				case "Unlock":
					c.Replace(call("UnlockLocker", s.X))
				default:
					return true
				}
				st.locker++
				changed = true
			case pkg == "sync" && recv == "Once" && name == "Do":
				var ptr ast.Expr = s.X
				if _, isPtr := info.TypeOf(s.X).(*types.Pointer); !isPtr {
					ptr = &ast.UnaryExpr{Op: token.AND, X: s.X}
				}
				c.Replace(call("OnceDo", ptr, x.Args[0]))
				st.once++
				changed = true
			case pkg == "sync" && recv == "Cond":
				switch name {
				case "Wait":
					c.Replace(call("CondWait", s.X))
				case "Signal":
					c.Replace(call("CondSignal", s.X))
				case "Broadcast":
					c.Replace(call("CondBroadcast", s.X))
				default:
					return true
				}
				st.cond++
				changed = true
			case pkg == "sync" && recv == "WaitGroup" && name == "Wait":
				c.Replace(call("WGWait", mv("Wait")))
				st.wg++
				changed = true
			case pkg == "net" && recv == "Dialer" && name == "DialContext":
				c.Replace(call("DialContext", append([]ast.Expr{mv("DialContext")}, x.Args...)...))
				st.dial++
				changed = true
			}
		case *ast.UnaryExpr:
			if x.Op == token.ARROW && !inSelectComm[x] {
				// `v, ok := <-ch` handled at AssignStmt level below (needs Recv2)
				if as, ok := c.Parent().(*ast.AssignStmt); ok && len(as.Lhs) == 2 && len(as.Rhs) == 1 {
					c.Replace(call("Recv2", x.X))
				} else if vs, ok := c.Parent().(*ast.ValueSpec); ok && len(vs.Names) == 2 && len(vs.Values) == 1 {
					c.Replace(call("Recv2", x.X))
				} else {
					c.Replace(call("Recv", x.X))
				}
				st.recv++
				changed = true
			}
		case *ast.SendStmt:
			if !inSelectComm[x] {
				c.Replace(callStmt("Send", x.Chan, x.Value))
				st.send++
				changed = true
			}
		case *ast.GoStmt:
			tok := fresh("tok")
			pre := []ast.Stmt{&ast.AssignStmt{Lhs: []ast.Expr{tok}, Tok: token.DEFINE, Rhs: []ast.Expr{call("Spawn")}}}
			prologue := []ast.Stmt{
				callStmt("Start", tok),
				&ast.DeferStmt{Call: call("Exit")},
			}
			if fl, ok := x.Call.Fun.(*ast.FuncLit); ok {
				fl.Body.List = append(prologue, fl.Body.List...)
				c.Replace(&ast.BlockStmt{List: append(pre, x)})
			} else {
				fn := fresh("fn")
				lhs := []ast.Expr{fn}
				rhs := []ast.Expr{x.Call.Fun}
				var args []ast.Expr
				for _, a := range x.Call.Args {
					v := fresh("a")
					lhs = append(lhs, v)
					rhs = append(rhs, a)
					args = append(args, v)
				}
				pre = append(pre, &ast.AssignStmt{Lhs: lhs, Tok: token.DEFINE, Rhs: rhs})
				inner := &ast.CallExpr{Fun: fn, Args: args, Ellipsis: x.Call.Ellipsis}
				if x.Call.Ellipsis.IsValid() {
					inner.Ellipsis = 1
				}
				body := append(prologue, &ast.ExprStmt{X: inner})
				x.Call = &ast.CallExpr{Fun: &ast.FuncLit{Type: &ast.FuncType{Params: &ast.FieldList{}}, Body: &ast.BlockStmt{List: body}}}
				c.Replace(&ast.BlockStmt{List: append(pre, x)})
			}
			st.gostmt++
			changed = true
		case *ast.RangeStmt:
			t := info.TypeOf(x.X)
			if t == nil {
				return true
			}
			if _, isChan := t.Underlying().(*types.Chan); isChan {
				x.Body.List = append([]ast.Stmt{callStmt("Resumed")}, x.Body.List...)
				changed = true
				return true
			}
			mt, isMap := t.Underlying().(*types.Map)
			if !isMap {
				return true
			}
			if labeled[x] || !keyOrderable(mt.Key()) {
				st.mapskip++
				fmt.Fprintf(os.Stderr, "map-range left native: %s key=%s labeled=%v\n", p.Fset.Position(x.Pos()), mt.Key(), labeled[x])
				return true
			}
			m := fresh("m")
			k := fresh("k")
			v := fresh("v")
			okv := fresh("ok")
			var body []ast.Stmt
			needV := x.Value != nil && !isBlank(x.Value)
			needK := x.Key != nil && !isBlank(x.Key)
			vLhs := ast.Expr(ast.NewIdent("_"))
			if needV {
				vLhs = v
			}
			body = append(body,
				&ast.AssignStmt{Lhs: []ast.Expr{vLhs, okv}, Tok: token.DEFINE, Rhs: []ast.Expr{&ast.IndexExpr{X: m, Index: k}}},
				&ast.IfStmt{Cond: &ast.UnaryExpr{Op: token.NOT, X: okv}, Body: &ast.BlockStmt{List: []ast.Stmt{&ast.BranchStmt{Tok: token.CONTINUE}}}},
			)
			var lhs, rhs []ast.Expr
			if needK {
				lhs, rhs = append(lhs, x.Key), append(rhs, k)
			}
			if needV {
				lhs, rhs = append(lhs, x.Value), append(rhs, v)
			}
			if len(lhs) > 0 {
				body = append(body, &ast.AssignStmt{Lhs: lhs, Tok: x.Tok, Rhs: rhs})
				if x.Tok == token.DEFINE {
					// avoid "declared and not used"
					for _, l := range lhs {
						body = append(body, &ast.AssignStmt{Lhs: []ast.Expr{ast.NewIdent("_")}, Tok: token.ASSIGN, Rhs: []ast.Expr{l}})
					}
				}
			}
			body = append(body, x.Body.List...)
			loop := &ast.RangeStmt{Key: ast.NewIdent("_"), Value: k, Tok: token.DEFINE, X: call("MapKeys", m), Body: &ast.BlockStmt{List: body}}
			c.Replace(&ast.BlockStmt{List: []ast.Stmt{
				&ast.AssignStmt{Lhs: []ast.Expr{m}, Tok: token.DEFINE, Rhs: []ast.Expr{x.X}},
				loop,
			}})
			st.maprange++
			changed = true
		}
		return true
	})
	if changed {
		astutil.AddNamedImport(p.Fset, f, "simrt", simrtPath)
	}
	return changed
}

func isBlank(e ast.Expr) bool {
	id, ok := e.(*ast.Ident)
	return ok && id.Name == "_"
}
