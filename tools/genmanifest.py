#!/usr/bin/env python3
"""Generate /verif/MANIFEST.json from tools/checks.json (claimed checks) and tools/na.json."""
import json
props=[json.loads(l)['id'] for l in open('/verif/properties.jsonl')]
checks=json.load(open('/verif/tools/checks.json'))
na=json.load(open('/verif/tools/na.json'))['na']
m={
 "version":1,
 "setup_cmd":"cd /verif && ./setup.sh",
 "hooks":{
  "guard":"verif",
  "enable":"No hook is committed to /repo. Checks instrument /repo's working tree at check time (tools/instr, go/ast+go/types) and inject the result plus the export files under /verif/inject with `go test -c -tags verif -overlay <overlay.json>`; every injected file carries //go:build verif. With the tag off (the default) /repo builds exactly as shipped.",
  "baseline_off_cmd":"cd /repo && go test -vet=off -count=1 -timeout 25m ./...",
  "source_commits":[],
  "add_only":True
 },
 "engines":[{"name":"simrt/vcheck","path":"/verif","serves_properties":sorted(checks.keys()),
   "kind_free_text":"deterministic simulation with fault injection: AST instrumenter -> serialized tape-driven scheduler on testing/synctest (fake clock), simnet in-memory transport with fault plans, independent protocol peers/reference models, seeded search over schedules and fault sequences, tape shrinking, exact replay"}],
 "checks":[],
 "not_applicable":[],
 "notes":"All checks: ./vcheck <ID> --tier quick|thorough (VERIF_SEED honoured). Exit 0 held / 1 VIOLATION / 2 harness or build trouble. Replays: ./vcheck <ID> --replay <file>. See DESIGN.md."
}
for p in props:
    if p in checks:
        c=checks[p]
        m["checks"].append({
          "property_id":p,
          "quick_cmd":"cd /verif && ./vcheck %s --tier quick"%p,
          "thorough_cmd":"cd /verif && ./vcheck %s --tier thorough"%p,
          "evidence_file":"/verif/evidence/%s.json"%p,
          "replay_cmd_template":"cd /verif && ./vcheck %s --replay {path}"%p,
          "engine":"simrt/vcheck",
          "level_claimed":{"category":"exploration","text":c["text"],"design_ref":c.get("design_ref","DESIGN.md §5")},
          "level_note":c["note"],
          "technique":c.get("technique","deterministic simulation with fault injection (seeded schedule/fault search)")
        })
    elif p in na:
        m["not_applicable"].append({"property_id":p,"reason":na[p]})
    else:
        m["not_applicable"].append({"property_id":p,"reason":"not claimed yet: the simulated check for this property is designed (DESIGN.md §5) but not built at this commit"})
json.dump(m,open('/verif/MANIFEST.json','w'),indent=1)
print("checks:",len(m["checks"]),"na:",len(m["not_applicable"]))
