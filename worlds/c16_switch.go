package worlds

import (
	"context"
	"fmt"
	"strings"
	"time"

	"go.minekube.com/gate/pkg/edition/java/config"
	"go.minekube.com/gate/pkg/edition/java/proxy"
	"go.minekube.com/gate/pkg/zzverif/simrt"
)

// C16 / C17 — server switches and initial/fallback server choice.
//
// Real proxy with three backends whose per-dial behaviour is drawn from the fault tape
// (accept, refuse, hang, kick at login/config/before join, reset, slow). A client joins
// with a tape-chosen virtual-host spelling; forced hosts / try list are generated.
// C17 oracle: a small reference chooser predicts the sequence of backends dialled for
// the initial join and after every failure. C16: after the join 1–4 API goroutines issue
// concurrent Connect / ConnectWithIndication requests and the current backend may kick the
// player; invariants at every lock-free step (at most one attempt in flight) and at
// quiescence (exactly one live backend, consistent server player lists, side-effect-free
// AlreadyConnected/InProgress results, every call returns).
func init() {
	Register(&Scenario{Prop: "C16", Desc: "server switches: one live backend, consistent lists", Run: func(r *Run) { runSwitch(r, true) },
		Quick: 400, Thorough: 40000,
		Real:  "proxy.Proxy: connectionRequest/internalConnect, serverConnection.connect, backend login/config/transition/play handlers, handleKickEvent, registeredServer.players",
		Model: "client/backend actors, API caller actors, scripted per-dial backend behaviour"})
	Register(&Scenario{Prop: "C17", Desc: "initial/fallback server choice follows forced hosts then try", Run: func(r *Run) { runSwitch(r, false) },
		Quick: 600, Thorough: 60000,
		Real:  "proxy.Proxy: nextServerToTry, connectToInitialServer, handleConnectionErr2/handleKickEvent, getVirtualHostname",
		Model: "client/backend actors; refChooser = reference implementation of the choice rule as stated in the property"})
}

func indexOf(l []string, s string) int {
	for i, x := range l {
		if x == s {
			return i
		}
	}
	return -1
}

// refChooser is the reference for C17.
type refChooser struct {
	list       []string
	idx        int
	registered map[string]bool
}

func newRefChooser(forced map[string][]string, try []string, vhost string, registered map[string]bool) *refChooser {
	h := vhost
	if i := strings.Index(h, "\x00"); i >= 0 {
		h = h[:i]
	}
	if i := strings.Index(h, "///"); i >= 0 {
		h = h[:i]
	}
	h = strings.ToLower(h)
	l := forced[h]
	if len(l) == 0 {
		l = try
	}
	return &refChooser{list: l, registered: registered}
}

// next returns the next server to try, excluding `exclude` (failed/current/in-flight names).
func (c *refChooser) next(exclude ...string) string {
	for i := c.idx; i < len(c.list); i++ {
		n := c.list[i]
		skip := false
		for _, e := range exclude {
			if e == n {
				skip = true
			}
		}
		if skip {
			continue
		}
		c.idx = i
		if c.registered[n] {
			return n
		}
	}
	return ""
}

func runSwitch(r *Run, concurrent bool) {
	all := []string{"s1", "s2", "s3"}
	// generated configuration
	var try []string
	for _, n := range []string{"s1", "s2", "s3", "ghost"} { // "ghost" is listed but never registered
		if r.W.Pick(4) != 0 {
			try = append(try, n)
		}
	}
	if len(try) == 0 {
		try = []string{"s1"}
	}
	// rotate for order diversity
	if k := r.W.Pick(len(try)); k > 0 {
		try = append(append([]string{}, try[k:]...), try[:k]...)
	}
	forced := map[string][]string{}
	if r.W.Pick(2) == 1 {
		var fl []string
		for _, n := range []string{"s3", "ghost", "s2", "s1"} {
			if r.W.Pick(3) != 0 {
				fl = append(fl, n)
			}
		}
		forced["play.example.com"] = fl
	}
	hostSpell := []string{"play.example.com", "Play.Example.COM", "other.example.org", "play.example.com\x00FML\x00", "play.example.com///10.1.2.3:4711///1700000000", "PLAY.example.com\x00FML2\x00",
		// a Forge client coming through TCPShield carries both suffixes
		"play.example.com///203.0.113.7:51234///1700000000\x00FML2\x00", "Play.example.com///203.0.113.7:51234///1700000000\x00FML\x00"}[r.W.Pick(8)]
	prot := pickProtocol(r)
	if strings.Contains(hostSpell, "FML2") && prot < 393 {
		hostSpell = strings.Replace(hostSpell, "FML2", "FML", 1)
	}
	if strings.HasSuffix(hostSpell, "\x00FML\x00") && prot >= 393 {
		hostSpell = strings.Replace(hostSpell, "\x00FML\x00", "\x00FML2\x00", 1)
	}
	w := newClassic(r, all, func(cfg *config.Config) {
		cfg.Try = try
		cfg.ForcedHosts = forced
	})
	proxyEvents(w)
	// per-dial behaviours
	mkBeh := func() backendBehavior {
		b := backendBehavior{Compression: []int{-1, 256}[r.F.Pick(2)]}
		switch r.F.Pick(12) {
		case 5:
			b.DialRefuse = true
		case 6:
			b.KickAt = "login"
		case 7:
			b.KickAt = "config"
		case 8:
			b.KickAt = "prejoin"
		case 9:
			b.ResetAt = []string{"login", "config", "prejoin"}[r.F.Pick(3)]
		case 10:
			b.DialDelay = time.Duration(1+r.F.Pick(3000)) * time.Millisecond
		case 11:
			b.DialHang = true
		case 4:
			// accepts login (and configuration) but loads the world for longer than the
			// request's deadline; answers JoinGame before the read timeout
			b.JoinDelay = time.Duration(5500+r.F.Pick(4000)) * time.Millisecond
		}
		return b
	}
	// "staggered" (set further down): exactly two requests, the second issued while the first
	// one's dial to a slow but healthy backend is visibly under way
	staggered, staggerActive, slowTarget := false, false, ""
	plans := map[string][]backendBehavior{}
	for _, n := range all {
		for i := 0; i < 8; i++ {
			plans[n] = append(plans[n], mkBeh())
		}
		n := n
		w.backends[n].NextBeh = func(k int) backendBehavior {
			if staggered && staggerActive {
				if n == slowTarget {
					return backendBehavior{Compression: -1, DialDelay: 300 * time.Millisecond}
				}
				return backendBehavior{Compression: -1}
			}
			if k < len(plans[n]) {
				return plans[n][k]
			}
			return backendBehavior{Compression: -1}
		}
	}
	registered := map[string]bool{"s1": true, "s2": true, "s3": true}
	ref := newRefChooser(forced, try, hostSpell, registered)

	// does a dial with behaviour b end in a successful join?
	okBeh := func(b backendBehavior, p int) bool {
		if b.JoinDelay > 0 {
			return false // the request gives up after 5 s
		}
		if b.DialRefuse || b.DialHang || b.KickAt != "" || b.ResetAt != "" {
			if (b.KickAt == "config" || b.ResetAt == "config") && p < 764 {
				return true // no config phase before 1.20.2
			}
			return false
		}
		return true
	}
	// predicted dial sequence for the initial join
	var predicted []string
	dialCount := map[string]int{}
	predJoined := ""
	{
		failed := ""
		for {
			n := ref.next(failed)
			if n == "" {
				break
			}
			predicted = append(predicted, n)
			b := plans[n][min(dialCount[n], len(plans[n])-1)]
			dialCount[n]++
			if okBeh(b, int(prot)) {
				predJoined = n
				break
			}
			failed = n
		}
	}

	seqVariant := concurrent && r.W.Pick(2) == 0 // requests strictly one after another
	staggered = concurrent && !seqVariant && r.W.Pick(4) == 0
	if concurrent {
		if seqVariant {
			r.Res.Variant = "sequential"
		} else {
			r.Res.Variant = "concurrent"
		}
	}
	type reqRec struct {
		target   string
		inv, ret int
		status   proxy.ConnectionStatus
		err      error
		gid      string
		withInd  bool
		ok       bool
	}
	var reqs []*reqRec
	actorsDone, nActors := 0, 0
	var cl *clientModel
	initialDials := 0
	phaseBStarted := false
	kicksFromCurrent := 0

	cl = w.addClient("Switcher", prot, func(c *clientModel) {
		c.Host = hostSpell
		r.Op("join")
		if !c.Login() {
			return
		}
		c.StartReader()
		if !c.WaitConnected(1) {
			return
		}
		initialDials = len(w.dialLog)
		if !concurrent {
			simrt.Sleep(200*time.Millisecond, "c17.stay")
			return
		}
		phaseBStarted = true
		pl := w.p.PlayerByName("Switcher")
		if pl == nil {
			return
		}
		if staggered {
			r.Res.Variant = "staggered"
			cur := ""
			if cs := pl.CurrentServer(); cs != nil {
				cur = cs.Server().ServerInfo().Name()
			}
			var others []string
			for _, n := range all {
				if n != cur {
					others = append(others, n)
				}
			}
			slowTarget = others[0]
			otherTarget := others[1]
			staggerActive = true
			nActors = 2
			dialsBefore := len(w.dialLog)
			connect := func(t string) {
				defer func() { actorsDone++ }()
				rec := &reqRec{target: t, inv: w.nextSeq(), gid: simrt.CurrentGID()}
				reqs = append(reqs, rec)
				r.Op("connect:" + t)
				ctx, cancel := context.WithTimeout(context.Background(), 5*time.Second)
				res, err := pl.CreateConnectionRequest(w.p.Server(t)).Connect(ctx)
				cancel()
				rec.err = err
				if err == nil && res != nil {
					rec.status = res.Status()
					rec.ok = res.Status().Successful()
				}
				rec.ret = w.nextSeq()
			}
			simrt.Go(func() { connect(slowTarget) })
			simrt.Go(func() {
				for i := 0; len(w.dialLog) == dialsBefore && i < 400; i++ {
					simrt.Sleep(time.Millisecond, "c16.stagger-wait")
				}
				simrt.Sleep(20*time.Millisecond, "c16.stagger")
				connect(otherTarget)
			})
			for actorsDone < nActors && c.Phase != "closed" {
				simrt.Sleep(20*time.Millisecond, "c16.wait-actors")
			}
			simrt.Sleep(300*time.Millisecond, "c16.stay")
			// the second request found one in flight: reported as such, nothing dialled for it
			if len(reqs) == 2 && c.Phase != "closed" {
				second := reqs[1]
				if reqs[0].target != slowTarget {
					second = reqs[0]
				}
				dialledOther := 0
				for _, d := range w.dialLog[dialsBefore:] {
					if d.Server == otherTarget {
						dialledOther++
					}
				}
				if second.err == nil && (second.status != proxy.InProgressConnectionStatus || dialledOther > 0) {
					r.Fail("request-during-in-flight-not-reported", "staggered", "a request to %s was issued while the dial to %s was under way: status %v (want in-progress), %d dial(s) to %s; requests %+v", otherTarget, slowTarget, second.status, dialledOther, otherTarget, reqs)
				}
			}
			return
		}
		nActors = 1 + r.W.Pick(4)
		if seqVariant {
			nActors = 1
		}
		for a := 0; a < nActors; a++ {
			nReq := 1 + r.W.Pick(2)
			if seqVariant {
				nReq = 1 + r.W.Pick(4)
			}
			targets := make([]string, nReq)
			inds := make([]bool, nReq)
			delays := make([]int, nReq)
			for i := range targets {
				targets[i] = all[r.W.Pick(3)]
				inds[i] = r.W.Pick(2) == 1
				if seqVariant {
					inds[i] = r.W.Pick(4) != 0
				}
				delays[i] = r.W.Pick(40)
			}
			simrt.Go(func() {
				defer func() { actorsDone++ }()
				for i, t := range targets {
					simrt.Sleep(time.Duration(delays[i])*time.Millisecond, "c16.delay")
					rs := w.p.Server(t)
					rec := &reqRec{target: t, inv: w.nextSeq(), gid: simrt.CurrentGID(), withInd: inds[i]}
					reqs = append(reqs, rec)
					r.Op("connect:" + t)
					ctx, cancel := context.WithTimeout(context.Background(), 5*time.Second)
					if inds[i] {
						rec.ok = pl.CreateConnectionRequest(rs).ConnectWithIndication(ctx)
					} else {
						res, err := pl.CreateConnectionRequest(rs).Connect(ctx)
						rec.err = err
						if err == nil && res != nil {
							rec.status = res.Status()
							rec.ok = res.Status().Successful()
						}
					}
					cancel()
					rec.ret = w.nextSeq()
				}
			})
		}
		// maybe the current backend kicks the player (unexpected kick => fallback); in the
		// sequential variant only once no request is in flight any more
		doKick := r.F.Pick(4) == 3
		if seqVariant && doKick {
			for actorsDone < nActors && c.Phase != "closed" {
				simrt.Sleep(20*time.Millisecond, "c16.wait-actors")
			}
			simrt.Sleep(300*time.Millisecond, "c16.settle-before-kick")
		}
		if doKick {
			simrt.Sleep(time.Duration(r.F.Pick(60))*time.Millisecond, "c16.kickdelay")
			for _, n := range all {
				for _, bc := range w.backends[n].Conns {
					if bc.Live() && kicksFromCurrent == 0 {
						kicksFromCurrent++
						r.Fault("kicked_from_current_in_play")
						bc.Kick("you were kicked")
					}
				}
			}
		}
		for actorsDone < nActors {
			simrt.Sleep(20*time.Millisecond, "c16.wait-actors")
			if c.Phase == "closed" {
				break
			}
		}
		simrt.Sleep(300*time.Millisecond, "c16.stay")
	})

	// step invariant: at most one connection attempt in flight for the player
	violated := false
	var overlapSince time.Time
	w.s.OnStep = func() {
		if violated || !phaseBStarted {
			return
		}
		inflight := 0
		var which []string
		for _, n := range all {
			for _, bc := range w.backends[n].Conns {
				if !bc.EOFSeen && !bc.Done && !bc.conn.PeerGone() && (bc.Phase == "handshake" || bc.Phase == "login" || bc.Phase == "config" || bc.Phase == "prejoin") {
					inflight++
					which = append(which, fmt.Sprintf("%s#%d:%s", n, bc.idx, bc.Phase))
				}
			}
		}
		if inflight <= 1 {
			overlapSince = time.Time{}
			return
		}
		// The proxy reports a timed-out or kicked attempt to its requester first and closes
		// that connection right afterwards (so the reason is not lost); the requester may dial
		// the fallback in between. Two attempts count as simultaneous only if both are still
		// open once simulated time has moved on.
		if overlapSince.IsZero() {
			overlapSince = time.Now()
			return
		}
		if time.Since(overlapSince) >= 20*time.Millisecond {
			violated = true
			sig := "sequential"
			if staggered {
				sig = "staggered"
			} else if !seqVariant {
				sig = "concurrent:overlapping-connect-activities"
			}
			r.Fail("two-attempts-in-flight", sig, "the player has %d backend connection attempts in flight at once: %v", inflight, which)
		}
	}
	why := w.s.RunUntil(60*time.Second, func() bool { return violated || w.allClientsDone() })
	if r.Failed() {
		return
	}
	if why == "steps" {
		r.Inconclusive("step budget exhausted")
		return
	}
	// cool-down / quiescence
	w.s.OnStep = nil
	w.s.RunUntil(45*time.Second, nil) // several 5 s dial/connect timeouts may still be pending
	if r.CheckDeadlock() {
		return
	}
	if !w.allClientsDone() {
		r.Fail("client-stuck", "liveness", "client script did not finish: %v", clientPhases(w))
		return
	}
	if concurrent && phaseBStarted && cl.Phase != "closed" && actorsDone != nActors {
		r.Fail("connect-never-returned", "liveness", "%d of %d API callers returned after faults stopped; requests %+v", actorsDone, nActors, reqs)
		return
	}
	var dialled []string
	for _, d := range w.dialLog {
		dialled = append(dialled, d.Server)
	}

	if !concurrent {
		// C17: initial dial sequence and outcome
		n := initialDials // dials up to the moment the first join completed
		if n == 0 {
			n = len(dialled) // never joined: every dial belongs to the initial attempt chain
		}
		got := dialled[:n]
		desc := fmt.Sprintf("try=%v forced=%v host=%q protocol=%d; predicted dials %v (join %q), observed dials %v; client %v kick %q", try, forced, hostSpell, prot, predicted, predJoined, got, clientPhases(w), cl.KickText())
		if strings.Join(got, ",") != strings.Join(predicted, ",") {
			r.Fail("wrong-server-choice", "choice", "%s", desc)
			return
		}
		if predJoined == "" {
			if cl.Kick == nil {
				r.Fail("not-disconnected-when-no-server-left", "choice", "%s", desc)
				return
			}
		} else {
			cur := ""
			if pl := w.p.PlayerByName("Switcher"); pl != nil && pl.CurrentServer() != nil {
				cur = pl.CurrentServer().Server().ServerInfo().Name()
			}
			if len(cl.JoinGames) == 0 || cl.JoinGames[0]/1000-1 != indexOf(all, predJoined) {
				r.Fail("wrong-server-joined", "choice", "joined %q; %s", cur, desc)
				return
			}
		}
		r.State(fmt.Sprintf("%v|%v|%d", predicted, predJoined, prot))
		r.Res.Sample = map[string]any{"try": try, "forced": forced, "host": hostSpell, "protocol": int(prot), "predicted": predicted, "observed": got, "joined": predJoined}
		return
	}

	if seqVariant {
		for _, q := range reqs {
			if q.err == nil && !q.withInd && q.status == proxy.InProgressConnectionStatus {
				r.Fail("reported-in-progress-with-nothing-in-flight", "sequential", "requests were issued strictly one after another, yet one to %s was answered 'connection in progress': %+v", q.target, reqs)
				return
			}
		}
	}
	// Attribution: were two connection activities (API requests, kick fallback) in progress
	// at the same time? (known race family, see DESIGN.md / known-findings.json)
	overlap := false
	if !seqVariant {
		for i, a := range reqs {
			for j, b := range reqs {
				ar, br := a.ret, b.ret
				if ar == 0 {
					ar = 1 << 60
				}
				if br == 0 {
					br = 1 << 60
				}
				if i < j && a.inv < br && b.inv < ar {
					overlap = true
				}
			}
		}
		if kicksFromCurrent > 0 && len(reqs) > 0 {
			overlap = true
		}
	}
	attr := r.Res.Variant
	if overlap {
		attr = "concurrent:overlapping-connect-activities"
	}
	// C16 quiescent invariants
	var live []*backendConn
	for _, n := range all {
		for _, bc := range w.backends[n].Conns {
			if bc.Live() {
				live = append(live, bc)
			}
		}
	}
	pl := w.p.PlayerByName("Switcher")
	desc := func() string {
		var rq []string
		for _, q := range reqs {
			rq = append(rq, fmt.Sprintf("%s:%d:ok=%v:err=%v", q.target, q.status, q.ok, q.err))
		}
		var lv []string
		for _, bc := range live {
			lv = append(lv, fmt.Sprintf("%s#%d", bc.b.name, bc.idx))
		}
		return fmt.Sprintf("protocol=%d dials=%v requests=%v live-backends=%v client=%v kick=%q", prot, dialled, rq, lv, clientPhases(w), cl.KickText())
	}
	if pl == nil || cl.Phase == "closed" {
		// player gone: no backend connection may stay open
		if cl.Phase == "closed" && len(live) > 0 && pl == nil {
			r.Fail("backend-leaked-after-player-left", attr, "player is gone but %d backend connection(s) are still open: %s", len(live), desc())
		}
		return
	}
	if len(live) != 1 {
		sig := fmt.Sprintf("%s:live=%d", attr, min(len(live), 2))
		if len(live) == 0 && prot >= 764 {
			for _, q := range reqs {
				if !q.withInd && q.ret != 0 && !q.ok {
					sig = "limbo-after-failed-plain-Connect-on-1.20.2+"
				}
			}
		}
		r.Fail("live-backend-count", sig, "player is connected but has %d live backend connections (want exactly 1): %s", len(live), desc())
		return
	}
	cur := pl.CurrentServer()
	if cur == nil || cur.Server().ServerInfo().Name() != live[0].b.name {
		r.Fail("current-server-mismatch", attr, "CurrentServer()=%v but the only live backend connection is %s: %s", cur, live[0].b.name, desc())
		return
	}
	if len(cl.JoinGames) == 0 || cl.JoinGames[len(cl.JoinGames)-1] != live[0].EntityID() {
		r.Fail("client-on-other-backend", attr, "the client's last JoinGame (%v) is not from the live backend connection %s#%d: %s", cl.JoinGames, live[0].b.name, live[0].idx, desc())
		return
	}
	for _, n := range all {
		rs := w.p.Server(n)
		in := false
		rs.Players().Range(func(p proxy.Player) bool {
			if p.Username() == "Switcher" {
				in = true
			}
			return true
		})
		if in != (n == live[0].b.name) {
			r.Fail("server-player-list-inconsistent", attr, "player listed on %s = %v but current server is %s: %s", n, in, live[0].b.name, desc())
			return
		}
	}
	// side-effect freedom
	for _, q := range reqs {
		if q.ret == 0 {
			continue
		}
		if !q.withInd && q.err == nil && (q.status == proxy.AlreadyConnectedConnectionStatus || q.status == proxy.InProgressConnectionStatus) {
			for _, d := range w.dialLog {
				if d.By == q.gid && d.Seq > q.inv && d.Seq < q.ret {
					r.Fail("refused-request-had-side-effects", "sideeffect", "request to %s answered %d (already connected / in progress) but it dialled %s: %s", q.target, q.status, d.Server, desc())
					return
				}
			}
		}
	}
	r.State(fmt.Sprintf("%d|%v|%s", prot, dialled, live[0].b.name))
	r.Res.Sample = map[string]any{"protocol": int(prot), "dials": dialled, "requests": len(reqs), "current": live[0].b.name, "joingames": cl.JoinGames}
}
