#!/bin/sh
# Builds everything from files on disk (offline): driver, instrumenter, instrumented overlay of
# /repo's working tree and the simulation binaries.
set -e
cd /verif
export GOFLAGS=-mod=mod GOPROXY=off GOSUMDB=off GOTOOLCHAIN=local
export PATH=/opt/veriftools/go1.26.8/bin:$PATH
mkdir -p bin evidence replays
go build -o bin/vcheck ./cmd/vcheck
bin/vcheck --build-only race
echo "setup done"
