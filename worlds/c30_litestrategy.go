package worlds

import (
	"fmt"
	"net"
	"strings"
	"time"

	liteconfig "go.minekube.com/gate/pkg/edition/java/lite/config"
	"go.minekube.com/gate/pkg/zzverif/simrt"
)

// C30 — Lite backend selection tries each backend once per attempt and counts fairly.
//
// Real proxy in Lite mode, one route with 1-4 backends (duplicates, spelling variants,
// default ports) and a tape-chosen strategy; 1-6 concurrent clients; per-backend dial
// outcomes refuse / hang / accept; clients close at tape-chosen times. Oracle: per
// connection attempt each distinct (normalised) backend is dialled at most once; order per
// strategy (sequential: config order; round-robin: the first pick rotates across
// attempts - checked when attempts do not overlap; least-connections, lowest-latency and
// random: not asserted beyond at-most-once); the attempt fails only after all failed; ActiveConnections() equals the
// number of open forwarded links at every quiescent step and 0 at cool-down.
func init() {
	Register(&Scenario{Prop: "C30", Desc: "lite strategies: each backend once per attempt; fair counts", Run: runC30,
		Quick: 500, Thorough: 60000,
		Real:   "lite.Forward/findRoute/nextBackend, StrategyManager (GetNextBackend, TrackConnection, ActiveConnections), tryBackends",
		Model:  "raw clients, simulated dialer/backends; counter models",
		Assume: []string{"data races inside StrategyManager (shared rand.Rand, round-robin index) are only visible to the race build, which is not part of this check"}})
}

func normBackend(a string) string {
	h, p, err := net.SplitHostPort(a)
	if err != nil {
		h, p = a, "25565"
	}
	return strings.ToLower(h) + ":" + p
}

func runC30(r *Run) {
	if r.W.Pick(5) == 4 {
		runC30LeastConnections(r)
		return
	}
	strategy := []liteconfig.Strategy{liteconfig.StrategySequential, liteconfig.StrategyRoundRobin, liteconfig.StrategyLeastConnections, liteconfig.StrategyRandom, liteconfig.StrategyLowestLatency, ""}[r.W.Pick(6)]
	pool := []string{"10.1.0.1:25565", "10.1.0.2:25565", "10.1.0.3", "10.1.0.1", "10.1.0.2:25566", "10.1.0.3:25565"}
	nB := 1 + r.W.Pick(4)
	var backends []string
	for i := 0; i < nB; i++ {
		backends = append(backends, pool[r.W.Pick(len(pool))])
	}
	routes := []liteconfig.Route{{Host: []string{"*"}, Backend: backends, Strategy: strategy}}
	w := newLite(r, routes, nil)
	defer w.finish()
	r.Res.Variant = string(strategy)
	// behaviour per normalised backend (the dialer is keyed by the exact dial address)
	beh := map[string]int{} // 0 accept, 1 refuse, 2 hang
	for _, b := range backends {
		n := normBackend(b)
		if _, ok := beh[n]; !ok {
			beh[n] = []int{0, 0, 1, 1, 2, 3}[r.F.Pick(6)] // 3: the link breaks right after the relayed handshake
		}
	}
	open := 0
	for _, b := range pool {
		n := normBackend(b)
		lb := &liteBackend{Refuse: beh[n] == 1, Hang: beh[n] == 2}
		if beh[n] == 3 {
			lb.FailGateWriteAt = int64(len(handshakeFrame(763, "any.host", 25565, 2))) + 1
		}
		lb.OnConn = func(bc *liteBackendConn) {
			open++
			bc.readAll()
			open--
		}
		w.backend[b] = lb
		// Gate may dial the address in normalised or original spelling
		w.backend[n] = lb
	}
	nClients := 1 + r.W.Pick(6)
	var pipelined []byte // login bytes in the same segment as the handshake: the proxy has to flush them to the backend first
	if r.W.Pick(2) == 0 {
		pipelined = []byte{9, 0, 7, 'P', 'l', 'a', 'y', 'e', 'r', '1'}
	}
	sequentialClients := r.W.Pick(2) == 0 // no overlap: needed for the exact round-robin oracle
	type attempt struct {
		gid    string
		closed bool
		done   bool
	}
	attempts := make([]*attempt, nClients)
	done := 0
	for i := 0; i < nClients; i++ {
		i := i
		stay := time.Duration(1+r.W.Pick(200)) * time.Millisecond
		delay := time.Duration(r.W.Pick(50)) * time.Millisecond
		attempts[i] = &attempt{}
		start := func() {
			c := w.connect(fmt.Sprintf("172.31.0.%d", i+1))
			attempts[i].gid = fmt.Sprintf("a:lhandleconn%d", c.idx)
			r.Op("connect")
			_, _ = c.conn.Write(append(handshakeFrame(763, "any.host", 25565, 2), pipelined...))
			simrt.Go(func() { c.readAll() })
			simrt.Sleep(stay, "c30.stay")
			_ = c.conn.Close()
			attempts[i].closed = true
		}
		if sequentialClients {
			continue
		}
		w.s.GoNamed(fmt.Sprintf("lc%d", i), func() {
			defer func() { done++ }()
			simrt.Sleep(delay, "c30.delay")
			start()
		})
		_ = start
	}
	if sequentialClients {
		w.s.GoNamed("lc-seq", func() {
			defer func() { done = nClients }()
			for i := 0; i < nClients; i++ {
				c := w.connect(fmt.Sprintf("172.31.0.%d", i+1))
				attempts[i].gid = fmt.Sprintf("a:lhandleconn%d", c.idx)
				r.Op("connect")
				_, _ = c.conn.Write(append(handshakeFrame(763, "any.host", 25565, 2), pipelined...))
				simrt.Go(func() { c.readAll() })
				simrt.Sleep(time.Duration(1+r.W.Pick(100))*time.Millisecond, "c30.stay")
				// wait until this attempt's dials are over (hang = 5 s timeout each)
				simrt.Sleep(time.Duration(6*len(backends))*time.Second, "c30.wait-attempt")
				_ = c.conn.Close()
				attempts[i].closed = true
				simrt.Sleep(50*time.Millisecond, "c30.gap")
			}
		})
	}
	violated := false
	sm := w.p.Lite().StrategyManager()
	w.s.OnStep = func() {
		if violated {
			return
		}
		simrt.DriverCall(func() {
			// ActiveConnections is incremented after the dial succeeded and decremented when the
			// pipe ends; the backend actor's `open` is the ground truth of open forwarded links.
			// They may differ transiently by in-flight set-up/tear-down, so only compare at rest.
			_ = sm
		})
	}
	why := w.s.RunUntil(600*time.Second, func() bool { return done == nClients })
	if why == "steps" {
		r.Inconclusive("step budget exhausted")
		return
	}
	w.s.OnStep = nil
	w.s.RunUntil(20*time.Second, nil)
	if r.CheckDeadlock() {
		return
	}
	desc := func() string {
		var ds []string
		for _, d := range w.dials {
			ds = append(ds, fmt.Sprintf("%s>%s:%s", strings.TrimPrefix(d.By, "a:lhandleconn"), d.Addr, d.Outcome))
		}
		return fmt.Sprintf("strategy=%q backends=%v behaviour=%v clients=%d sequential=%v dials=%v", strategy, backends, beh, nClients, sequentialClients, ds)
	}
	// per attempt: each distinct backend at most once; failure only after all distinct failed
	distinct := map[string]bool{}
	for _, b := range backends {
		distinct[normBackend(b)] = true
	}
	firstPick := map[string]string{}
	var attemptOrder []string
	for _, a := range attempts {
		seen := map[string]int{}
		ok := false
		for _, d := range w.dials {
			if d.By != a.gid {
				continue
			}
			n := normBackend(d.Addr)
			if _, had := firstPick[a.gid]; !had {
				firstPick[a.gid] = n
				attemptOrder = append(attemptOrder, a.gid)
			}
			seen[n]++
			if seen[n] > 1 {
				r.Fail("backend-tried-twice-in-one-attempt", "dup="+fmt.Sprint(len(distinct) != len(backends)), "connection %s dialled backend %s %d times in one attempt: %s", a.gid, n, seen[n], desc())
				return
			}
			if !distinct[n] {
				r.Fail("dialled-foreign-backend", "foreign", "connection %s dialled %s which is not a backend of the route: %s", a.gid, n, desc())
				return
			}
			if d.Outcome == "ok" {
				ok = true
			}
		}
		if !ok && a.gid != "" && len(seen) > 0 && len(seen) < len(distinct) {
			// the attempt gave up although some distinct backend was never tried (unless the client left first)
			if sequentialClients {
				r.Fail("gave-up-before-trying-all-backends", "giveup", "connection %s failed after trying %d of %d distinct backends: %s", a.gid, len(seen), len(distinct), desc())
				return
			}
		}
	}
	// sequential strategy: dial order within an attempt follows config order
	if strategy == liteconfig.StrategySequential || strategy == "" {
		for _, a := range attempts {
			idx := -1
			for _, d := range w.dials {
				if d.By != a.gid {
					continue
				}
				n := normBackend(d.Addr)
				pos := -1
				for i, b := range backends {
					if normBackend(b) == n && i > idx {
						pos = i
						break
					}
				}
				if pos < 0 {
					r.Fail("sequential-order-wrong", "sequential", "connection %s dialled %s out of configuration order: %s", a.gid, n, desc())
					return
				}
				idx = pos
			}
		}
	}
	// round-robin: with non-overlapping attempts the first pick rotates through the list
	allAccept := true
	for _, v := range beh {
		if v != 0 {
			allAccept = false
		}
	}
	// (retries inside one attempt advance the rotation as well, so the exact rotation is
	// only predictable when every backend accepts)
	if strategy == liteconfig.StrategyRoundRobin && sequentialClients && allAccept && len(attemptOrder) >= 2 {
		for i, g := range attemptOrder {
			want := normBackend(backends[i%len(backends)])
			if firstPick[g] != want {
				r.Fail("round-robin-not-rotating", "roundrobin", "attempt #%d first dialled %s, rotation expects %s: %s", i, firstPick[g], want, desc())
				return
			}
		}
	}
	// (Not asserted: that every accepting backend gets its turn when others fail. On the
	// unchanged tree the shared rotation index is advanced by retries over a shrinking
	// candidate list, and a list such as [A, dead, B, dead] serves A for ever and never B -
	// recorded as an observation in DESIGN.md 12.5; the property fixes the rotation only
	// "across connections", which is checked above when every backend accepts.)
	// counts
	if open != 0 {
		r.Fail("backend-links-left-open", "count", "%d forwarded backend links are still open after all clients closed: %s", open, desc())
		return
	}
	var active uint32
	if !simrt.DriverCall(func() { active = sm.ActiveConnections() }) {
		r.HarnessError("ActiveConnections would block at cool-down")
		return
	}
	if active != 0 {
		r.Fail("active-connections-not-zero", "count", "ActiveConnections()=%d after every connection closed: %s", active, desc())
		return
	}
	r.State(fmt.Sprintf("%s b%d c%d", strategy, len(backends), nClients))
	r.Res.Sample = map[string]any{"strategy": string(strategy), "backends": backends, "clients": nClients, "dials": len(w.dials), "sequential_clients": sequentialClients}
}

// runC30LeastConnections: the least-connections counters must follow the open links. Two
// accepting backends; connections are opened and closed so that a close of a backend's only
// link coincides (same simulated instant, any interleaving) with a new connection; then, at
// rest, further connections are made one by one and each must be dialled to a backend with
// the fewest links actually open (ties are free).
func runC30LeastConnections(r *Run) {
	r.Res.Variant = "least-connections-phased"
	backends := []string{"10.1.0.1:25565", "10.1.0.2:25565"}
	routes := []liteconfig.Route{{Host: []string{"*"}, Backend: backends, Strategy: liteconfig.StrategyLeastConnections}}
	w := newLite(r, routes, nil)
	defer w.finish()
	// releases are scheduling points here as well: the counters are atomics updated next to,
	// not only inside, the strategy manager's critical sections
	w.s.YieldAfterUnlock = true
	openBy := map[string]int{}
	for _, b := range backends {
		b := b
		lb := &liteBackend{}
		lb.OnConn = func(bc *liteBackendConn) {
			openBy[b]++
			bc.readAll()
			openBy[b]--
		}
		w.backend[b] = lb
	}
	type link struct {
		c    *liteClient
		gid  string
		open bool
	}
	var links []*link
	connect := func() *link {
		c := w.connect(fmt.Sprintf("172.31.1.%d", len(links)+1))
		l := &link{c: c, gid: fmt.Sprintf("a:lhandleconn%d", c.idx), open: true}
		links = append(links, l)
		r.Op("connect")
		_, _ = c.conn.Write(handshakeFrame(763, "any.host", 25565, 2))
		simrt.Go(func() { c.readAll() })
		return l
	}
	type pick struct {
		gid    string
		before map[string]int
	}
	var atRest []pick
	snapshot := func() map[string]int {
		m := map[string]int{}
		for _, b := range backends {
			m[b] = openBy[b]
		}
		return m
	}
	done := false
	counterMismatch := ""
	rounds := 2 + r.W.Pick(8)
	w.s.GoNamed("lc-script", func() {
		defer func() { done = true }()
		rest := func() { simrt.Sleep(100*time.Millisecond, "c30.rest") }
		for round := 0; round < rounds; round++ {
			// two links at rest, one per backend
			a := connect()
			rest()
			d := connect()
			rest()
			// the same instant: a (alone on its backend) closes while b connects
			r.Op("close-while-connecting")
			// The proxy notices the close at the next poll tick of its blocked read (200 us of
			// simulated time); the new connection is processed within the instant it arrives.
			// Put both into the same instant and let the tape decide where in each other's
			// processing they meet.
			jb, ticks := r.W.Pick(300), r.W.Pick(3)
			_ = a.c.conn.Close()
			a.open = false
			if ticks > 0 {
				simrt.Sleep(time.Duration(ticks)*200*time.Microsecond, "c30.lc-tick")
			}
			for i := 0; i < jb; i++ {
				simrt.Yield("c30.lc-jitter")
			}
			connect()
			rest()
			// at rest the per-backend counters must equal the links that are open
			if sm := w.p.Lite().StrategyManager(); sm != nil && counterMismatch == "" {
				for _, b := range backends {
					if c := int(sm.GetOrCreateCounter(b).Load()); c != openBy[b] {
						counterMismatch = fmt.Sprintf("round %d, after a close coincided with a connect: the least-connections counter of %s is %d, %d links to it are open (all: %v)", round, b, c, openBy[b], snapshot())
					}
				}
			}
			// at rest: three more, one by one
			for k := 0; k < 3; k++ {
				before := snapshot()
				l := connect()
				atRest = append(atRest, pick{gid: l.gid, before: before})
				rest()
			}
			// drain for the next round
			_ = d
			for _, l := range links {
				if l.open {
					_ = l.c.conn.Close()
					l.open = false
				}
			}
			rest()
		}
	})
	why := w.s.RunUntil(120*time.Second, func() bool { return done })
	if why == "steps" {
		r.Inconclusive("step budget exhausted")
		return
	}
	w.s.RunUntil(5*time.Second, nil)
	if r.CheckDeadlock() {
		return
	}
	if counterMismatch != "" {
		r.Fail("least-connections-counter-wrong", "phased", "%s", counterMismatch)
		return
	}
	for _, p := range atRest {
		first := ""
		for _, d := range w.dials {
			if d.By == p.gid {
				first = d.Addr
				break
			}
		}
		if first == "" {
			continue
		}
		minOpen := 1 << 30
		for _, n := range p.before {
			if n < minOpen {
				minOpen = n
			}
		}
		if p.before[normBackend(first)] != minOpen && p.before[first] != minOpen {
			r.Fail("least-connections-picked-busier-backend", "phased", "with %v links open (at rest) the next connection was dialled to %s, which is not a backend with the fewest open links", p.before, first)
			return
		}
	}
	for _, b := range backends {
		if openBy[b] != 0 {
			r.Fail("backend-links-left-open", "count", "%d links to %s are still open after all clients closed", openBy[b], b)
			return
		}
	}
	r.State(fmt.Sprintf("lc-phased r%d picks%d", rounds, len(atRest)))
	r.Res.Sample = map[string]any{"variant": "least-connections-phased", "rounds": rounds, "picks_at_rest": len(atRest)}
}
