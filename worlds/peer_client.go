package worlds

import (
	"fmt"
	"sync"
	"time"

	"go.minekube.com/gate/pkg/edition/java/proto/packet"
	cfgpacket "go.minekube.com/gate/pkg/edition/java/proto/packet/config"
	"go.minekube.com/gate/pkg/edition/java/proto/packet/plugin"
	"go.minekube.com/gate/pkg/edition/java/proto/state"
	"go.minekube.com/gate/pkg/edition/java/proto/version"
	"go.minekube.com/gate/pkg/gate/proto"
	"go.minekube.com/gate/pkg/zzverif/simnet"
	"go.minekube.com/gate/pkg/zzverif/simrt"
)

// clientModel is the vanilla-client actor.
type clientModel struct {
	w      *classicWorld
	idx    int
	Name   string
	Prot   proto.Protocol
	Host   string
	Port   int
	IP     string
	conn   *simnet.Conn
	wire   *wireEnd
	sendMu sync.Mutex

	Phase           string // new, login, config, play, closed
	LoginSuccess    *packet.ServerLoginSuccess
	LoginSuccessSeq int
	Kick            *packet.Disconnect
	KickSeq         int
	KickPhase       string
	JoinGames       []int // entity ids in arrival order
	JoinSeqs        []int
	Respawns        int
	ClosedSeq       int
	KeepAlives      []int64
	AutoKeepAlive   bool
	OnPacket        func(rec *pktRec)
	OnLoginPlugin   func(m *packet.LoginPluginMessage) *packet.LoginPluginResponse
	Done            bool
	ReaderDone      bool
	Err             error
	ConfigEpisodes  int
	OnConfigEnter   func() // called right after the client entered the configuration phase (1.20.2+)
	// online mode
	Online *onlineCreds
	crypt  *cryptConn
}

func (c *clientModel) send(p proto.Packet) error {
	simrt.Lock(c.sendMu.TryLock, c.sendMu.Lock, "client.send")
	defer simrt.Unlock(c.sendMu.Unlock, "client.send")
	return c.wire.send(p)
}

func (c *clientModel) sendRaw(payload []byte) error {
	simrt.Lock(c.sendMu.TryLock, c.sendMu.Lock, "client.send")
	defer simrt.Unlock(c.sendMu.Unlock, "client.send")
	return c.wire.sendRaw(payload)
}

func (c *clientModel) noteClosed() {
	if c.Phase != "closed" {
		c.Phase = "closed"
		c.ClosedSeq = c.w.nextSeq()
	}
}

// Connect opens the TCP connection to the proxy (HandleConn runs as its own goroutine).
func (c *clientModel) Connect() {
	w := c.w
	cl, gate := w.r.Pipe(fmt.Sprintf("client%d", c.idx), fmt.Sprintf("gate<client%d", c.idx),
		simnet.Options{Seg: w.seg, Window: w.clientWindow, AddrA: simnet.TCP(c.IP, 40000+c.idx), AddrB: simnet.TCP("10.0.0.1", 25565)})
	c.conn = cl
	c.crypt = &cryptConn{Conn: cl}
	c.wire = newWireEnd(c.crypt, proto.ClientBound, c.Prot, &w.seq)
	w.connN++
	name := fmt.Sprintf("handleconn%d", c.idx)
	w.s.GoNamed(name, func() { w.p.HandleConn(gate) })
}

// Handshake sends the handshake for login (next=2) or status (next=1).
func (c *clientModel) Handshake(next int) error {
	if err := c.send(&packet.Handshake{ProtocolVersion: int(c.Prot), ServerAddress: c.Host, Port: c.Port, NextStatus: next}); err != nil {
		return err
	}
	if next == 1 {
		c.wire.setState(state.Status)
	} else {
		c.wire.setState(state.Login)
	}
	return nil
}

// Login performs handshake + login and runs until the client is in play and has received
// JoinGame, or the connection ended. Returns true if joined.
func (c *clientModel) Login() bool {
	if c.conn == nil {
		c.Connect()
	}
	c.Phase = "login"
	if err := c.Handshake(2); err != nil {
		c.noteClosed()
		return false
	}
	lg := &packet.ServerLogin{Username: c.Name}
	if c.Prot.GreaterEqual(version.Minecraft_1_19_1) {
		lg.HolderID = offlineUUID(c.Name)
	}
	if err := c.send(lg); err != nil {
		c.noteClosed()
		return false
	}
	return c.readUntilJoined()
}

// readUntilJoined processes packets through login/config until JoinGame arrives.
func (c *clientModel) readUntilJoined() bool {
	for {
		rec, err := c.wire.read()
		if err != nil {
			c.noteClosed()
			return false
		}
		if c.handle(rec) {
			if c.Phase == "closed" {
				return false
			}
		}
		if c.Phase == "play" && len(c.JoinGames) > 0 {
			return true
		}
	}
}

// handle applies vanilla-client behaviour to one received packet. Returns true if the
// packet ended the connection.
func (c *clientModel) handle(rec *pktRec) bool {
	switch p := rec.Packet.(type) {
	case *packet.Disconnect:
		c.Kick, c.KickSeq, c.KickPhase = p, rec.Seq, c.Phase
		c.noteClosed()
		_ = c.conn.Close()
		return true
	case *packet.EncryptionRequest:
		if c.Online != nil {
			c.Online.respond(c, p)
		}
	case *packet.SetCompression:
		c.wire.setCompression(p.Threshold)
	case *packet.LoginPluginMessage:
		resp := &packet.LoginPluginResponse{ID: p.ID, Success: false}
		if c.OnLoginPlugin != nil {
			if r := c.OnLoginPlugin(p); r != nil {
				resp = r
			} else {
				return false // scripted: no answer
			}
		}
		_ = c.send(resp)
	case *packet.ServerLoginSuccess:
		c.LoginSuccess, c.LoginSuccessSeq = p, rec.Seq
		if c.Prot.GreaterEqual(version.Minecraft_1_20_2) {
			c.wire.setReadState(state.Config)
			_ = c.send(&packet.LoginAcknowledged{})
			c.wire.setWriteState(state.Config)
			c.Phase = "config"
			if c.OnConfigEnter != nil {
				c.OnConfigEnter()
			}
		} else {
			c.wire.setState(state.Play)
			c.Phase = "play"
		}
	case *cfgpacket.FinishedUpdate:
		// leave config
		c.wire.setReadState(state.Play)
		_ = c.send(&cfgpacket.FinishedUpdate{})
		c.wire.setWriteState(state.Play)
		c.Phase = "play"
	case *cfgpacket.StartUpdate:
		// enter config (re-configuration)
		c.wire.setReadState(state.Config)
		_ = c.send(&cfgpacket.FinishedUpdate{}) // serverbound play "acknowledge configuration"
		c.wire.setWriteState(state.Config)
		c.Phase = "config"
		c.ConfigEpisodes++
	case *packet.KeepAlive:
		c.KeepAlives = append(c.KeepAlives, p.RandomID)
		if c.AutoKeepAlive {
			_ = c.send(&packet.KeepAlive{RandomID: p.RandomID})
		}
	case *packet.JoinGame:
		c.JoinGames = append(c.JoinGames, p.EntityID)
		c.JoinSeqs = append(c.JoinSeqs, rec.Seq)
	case *packet.Respawn:
		c.Respawns++
	case *plugin.Message:
	}
	if c.OnPacket != nil {
		c.OnPacket(rec)
	}
	return false
}

// StartReader handles incoming packets in a goroutine of its own (vanilla behaviour)
// so that the script goroutine is free to send.
func (c *clientModel) StartReader() {
	simrt.Go(func() {
		defer func() { c.ReaderDone = true }()
		for {
			rec, err := c.wire.read()
			if err != nil {
				c.noteClosed()
				return
			}
			if c.handle(rec) {
				return
			}
		}
	})
}

// KickText renders the disconnect reason, if any.
func (c *clientModel) KickText() string {
	if c.Kick == nil || c.Kick.Reason == nil {
		return ""
	}
	if j, err := c.Kick.Reason.AsJson(); err == nil {
		return string(j)
	}
	return fmt.Sprint(c.Kick.Reason)
}

// WaitConnected blocks (simulated) until the proxy has fired n ServerPostConnectEvents for
// this player, i.e. finished n joins/switches, or the connection closed.
func (c *clientModel) WaitConnected(n int) bool {
	ce := proxyEvents(c.w)
	for ce.Connected[c.Name] < n {
		if c.Phase == "closed" {
			return false
		}
		simrt.Sleep(50*time.Millisecond, "client.wait-connected")
	}
	return true
}

// Close closes the client's socket.
func (c *clientModel) Close() {
	if c.conn != nil {
		_ = c.conn.Close()
	}
	c.noteClosed()
}
