package worlds

import (
	"context"
	"fmt"
	"net"
	"sync"
	"time"

	"go.minekube.com/gate/pkg/edition/java/proto/packet"
	cfgpacket "go.minekube.com/gate/pkg/edition/java/proto/packet/config"
	"go.minekube.com/gate/pkg/edition/java/proto/packet/plugin"
	"go.minekube.com/gate/pkg/edition/java/proto/state"
	"go.minekube.com/gate/pkg/edition/java/proto/util"
	"go.minekube.com/gate/pkg/edition/java/proto/version"
	"go.minekube.com/gate/pkg/edition/java/proxy"
	"go.minekube.com/gate/pkg/gate/proto"
	"go.minekube.com/gate/pkg/zzverif/simnet"
	"go.minekube.com/gate/pkg/zzverif/simrt"
)

// backendBehavior scripts one backend server (per accepted connection a copy is used).
type backendBehavior struct {
	Compression   int    // threshold to announce, <0 none
	Velocity      bool   // request modern forwarding
	VelocityVer   int    // requested version byte (-1: empty body)
	KickAt        string // "", "login", "config", "prejoin", "play"
	ResetAt       string // same phases: reset the connection
	SilentAt      string // same phases: stop talking (but keep reading nothing)
	DialRefuse    bool
	DialHang      bool
	DialDelay     time.Duration
	JoinDelay     time.Duration         // extra time between the end of login/config and JoinGame (a slow world load)
	ConfigPackets int                   // extra config-phase packets (RegistrySync-like unknown ids) to send
	OnJoined      func(bc *backendConn) // runs in the connection's script goroutine after JoinGame was sent
	OnConfig      func(bc *backendConn) // runs in config phase before FinishedUpdate (1.20.2+)
	OnLogin       func(bc *backendConn) // runs after ServerLogin was read, before LoginSuccess
	OnPreJoin     func(bc *backendConn) // runs in play state right before JoinGame is sent (a modded server's handshake)
}

type backendModel struct {
	index int
	name  string
	addr  net.Addr
	w     *classicWorld
	Beh   backendBehavior
	Conns []*backendConn
	Dials int
	// NextBeh, if set, returns the behaviour for the n-th dial (0-based).
	NextBeh func(n int) backendBehavior
}

func (b *backendModel) Name() string   { return b.name }
func (b *backendModel) Addr() net.Addr { return b.addr }

type backendConn struct {
	b            *backendModel
	idx          int
	w            *wireEnd
	conn         *simnet.Conn
	beh          backendBehavior
	Handshake    *packet.Handshake
	Login        *packet.ServerLogin
	Phase        string // "handshake","login","config","prejoin","play","closed"
	Joined       bool
	JoinSeq      int
	EOFSeen      bool
	EOFSeq       int
	sendMu       sync.Mutex
	VelocityResp *packet.LoginPluginResponse
	PluginResps  []*packet.LoginPluginResponse
	Done         bool
	Err          error
	PlayerName   string
	OnPacket     func(rec *pktRec) // called by the play reader for every packet
	KeepAlives   []int64           // keep-alive ids received from the proxy (replies)
	KALog        []kaEvent
}

type kaEvent struct {
	Seq  int
	Sent bool // true: this backend sent the keep-alive; false: it received a reply
	ID   int64
}

// SendKeepAlive sends a keep-alive and logs it.
func (bc *backendConn) SendKeepAlive(id int64) error {
	bc.KALog = append(bc.KALog, kaEvent{Seq: bc.b.w.nextSeq(), Sent: true, ID: id})
	return bc.send(&packet.KeepAlive{RandomID: id})
}

// Dial implements proxy.ServerDialer: called by Gate's serverConnection.dial.
func (b *backendModel) Dial(ctx context.Context, p proxy.Player) (net.Conn, error) {
	w := b.w
	n := b.Dials
	b.Dials++
	beh := b.Beh
	if b.NextBeh != nil {
		beh = b.NextBeh(n)
	}
	w.r.Op("dial:" + b.name)
	w.dialLog = append(w.dialLog, dialRec{Seq: w.nextSeq(), Server: b.name, Player: p.Username(), By: simrt.CurrentGID()})
	if beh.DialRefuse {
		w.r.Fault("dial_refused")
		return nil, simnet.ErrRefused
	}
	if beh.DialHang {
		w.r.Fault("dial_hang")
		<-ctx.Done()
		simrt.Resumed("backend.dial-hang")
		return nil, ctx.Err()
	}
	if beh.DialDelay > 0 {
		w.r.Fault("dial_slow")
		simrt.Sleep(beh.DialDelay, "backend.dial-delay")
		if ctx.Err() != nil {
			return nil, ctx.Err()
		}
	}
	gateEnd, beEnd := w.r.Pipe("gate>"+b.name, b.name, simnet.Options{Seg: w.seg, AddrA: simnet.TCP("10.9.9.9", 30000+len(w.dialLog)), AddrB: b.addr})
	bc := &backendConn{b: b, idx: len(b.Conns), conn: beEnd, beh: beh, Phase: "handshake", PlayerName: p.Username()}
	bc.w = newWireEnd(beEnd, proto.ServerBound, version.MinimumVersion.Protocol, &w.seq)
	b.Conns = append(b.Conns, bc)
	simrt.Go(func() { bc.run() })
	return gateEnd, nil
}

func (bc *backendConn) send(p proto.Packet) error {
	simrt.Lock(bc.sendMu.TryLock, bc.sendMu.Lock, "backend.send")
	defer simrt.Unlock(bc.sendMu.Unlock, "backend.send")
	return bc.w.send(p)
}

func (bc *backendConn) sendRaw(payload []byte) error {
	simrt.Lock(bc.sendMu.TryLock, bc.sendMu.Lock, "backend.send")
	defer simrt.Unlock(bc.sendMu.Unlock, "backend.send")
	return bc.w.sendRaw(payload)
}

func (bc *backendConn) fail(err error) {
	if bc.Err == nil {
		bc.Err = err
	}
}

// at handles the scripted disruption for a phase; returns true if the connection ended.
func (bc *backendConn) at(phase string) bool {
	bc.Phase = phase
	w := bc.b.w
	switch {
	case bc.beh.KickAt == phase:
		w.r.Fault("backend_kick_" + phase)
		st := bc.w.wstate.State
		_ = bc.send(packet.NewDisconnect(textComp("kicked by "+bc.b.name+" at "+phase), bc.w.prot, st))
		_ = bc.conn.Close()
		bc.Phase = "closed"
		return true
	case bc.beh.ResetAt == phase:
		w.r.Fault("backend_reset_" + phase)
		bc.conn.Reset()
		bc.Phase = "closed"
		return true
	case bc.beh.SilentAt == phase:
		w.r.Fault("backend_silent_" + phase)
		// read until the proxy gives up
		for {
			if _, err := bc.w.read(); err != nil {
				bc.noteEOF()
				return true
			}
		}
	}
	return false
}

func (bc *backendConn) noteEOF() {
	if !bc.EOFSeen {
		bc.EOFSeen = true
		bc.EOFSeq = bc.b.w.nextSeq()
	}
	bc.Phase = "closed"
}

func (bc *backendConn) run() {
	defer func() { bc.Done = true }()
	w := bc.w
	// handshake
	rec, err := w.read()
	if err != nil {
		bc.noteEOF()
		return
	}
	hs, ok := rec.Packet.(*packet.Handshake)
	if !ok {
		bc.fail(fmt.Errorf("backend expected Handshake, got %s", rec))
		return
	}
	bc.Handshake = hs
	w.setProtocol(proto.Protocol(hs.ProtocolVersion))
	w.setState(state.Login)
	rec, err = w.read()
	if err != nil {
		bc.noteEOF()
		return
	}
	lg, ok := rec.Packet.(*packet.ServerLogin)
	if !ok {
		bc.fail(fmt.Errorf("backend expected ServerLogin, got %s", rec))
		return
	}
	bc.Login = lg
	if bc.at("login") {
		return
	}
	if bc.beh.OnLogin != nil {
		bc.beh.OnLogin(bc)
	}
	if bc.beh.Velocity {
		var data []byte
		if bc.beh.VelocityVer >= 0 {
			data = []byte{byte(bc.beh.VelocityVer)}
		} else if bc.beh.VelocityVer == -2 {
			data = []byte{4, 4} // a body that is not exactly one byte: default version applies
		}
		if err := bc.send(&packet.LoginPluginMessage{ID: 7001, Channel: "velocity:player_info", Data: data}); err != nil {
			bc.noteEOF()
			return
		}
		rec, err = w.read()
		if err != nil {
			bc.noteEOF()
			return
		}
		resp, ok := rec.Packet.(*packet.LoginPluginResponse)
		if !ok {
			bc.fail(fmt.Errorf("backend expected LoginPluginResponse, got %s", rec))
			return
		}
		bc.VelocityResp = resp
	}
	if bc.beh.Compression >= 0 && w.prot.GreaterEqual(version.Minecraft_1_8) {
		if err := bc.send(&packet.SetCompression{Threshold: bc.beh.Compression}); err != nil {
			bc.noteEOF()
			return
		}
		w.setCompression(bc.beh.Compression)
	}
	name := lg.Username
	if err := bc.send(&packet.ServerLoginSuccess{UUID: offlineUUID(name), Username: name}); err != nil {
		bc.noteEOF()
		return
	}
	if w.prot.GreaterEqual(version.Minecraft_1_20_2) {
		rec, err = w.read()
		if err != nil {
			bc.noteEOF()
			return
		}
		if _, ok := rec.Packet.(*packet.LoginAcknowledged); !ok {
			bc.fail(fmt.Errorf("backend expected LoginAcknowledged, got %s", rec))
			return
		}
		w.setState(state.Config)
		if bc.at("config") {
			return
		}
		for i := 0; i < bc.beh.ConfigPackets; i++ {
			// a registry-like packet unknown to Gate: must be relayed untouched
			_ = bc.sendRaw([]byte{0x7d, byte(i), 0xAA})
		}
		if bc.beh.OnConfig != nil {
			bc.beh.OnConfig(bc)
		}
		if err := bc.send(&cfgpacket.FinishedUpdate{}); err != nil {
			bc.noteEOF()
			return
		}
		// wait for the acknowledgement, recording whatever arrives meanwhile
		for {
			rec, err = w.read()
			if err != nil {
				bc.noteEOF()
				return
			}
			if _, ok := rec.Packet.(*cfgpacket.FinishedUpdate); ok {
				break
			}
			if ka, ok := rec.Packet.(*packet.KeepAlive); ok {
				bc.KeepAlives = append(bc.KeepAlives, ka.RandomID)
				bc.KALog = append(bc.KALog, kaEvent{Seq: bc.b.w.nextSeq(), ID: ka.RandomID})
			}
			if bc.OnPacket != nil {
				bc.OnPacket(rec)
			}
		}
		w.setState(state.Play)
	} else {
		w.setState(state.Play)
	}
	if bc.at("prejoin") {
		return
	}
	// A remote backend reacts one network latency later, never within the same instant:
	// Gate switches the backend connection's session handler a few instructions after it
	// wrote the FinishedUpdate acknowledgement (window documented in DESIGN.md §7).
	simrt.Sleep(time.Millisecond, "backend.latency")
	if bc.beh.JoinDelay > 0 {
		bc.b.w.r.Fault("backend_slow_join")
		simrt.Sleep(bc.beh.JoinDelay, "backend.join-delay")
	}
	if bc.beh.OnPreJoin != nil {
		bc.beh.OnPreJoin(bc)
	}
	if err := bc.send(joinGameFor(w.prot, bc.EntityID())); err != nil {
		bc.noteEOF()
		return
	}
	bc.Joined = true
	bc.JoinSeq = bc.b.w.nextSeq()
	bc.Phase = "play"
	// reader goroutine
	simrt.Go(func() { bc.playReader() })
	if bc.beh.KickAt == "play" || bc.beh.ResetAt == "play" {
		simrt.Sleep(time.Duration(1+bc.b.w.r.F.Pick(50))*time.Millisecond, "backend.play-delay")
		bc.at("play")
		return
	}
	if bc.beh.OnJoined != nil {
		bc.beh.OnJoined(bc)
	}
}

func (bc *backendConn) playReader() {
	for {
		rec, err := bc.w.read()
		if err != nil {
			bc.noteEOF()
			return
		}
		switch p := rec.Packet.(type) {
		case *packet.KeepAlive:
			bc.KeepAlives = append(bc.KeepAlives, p.RandomID)
			bc.KALog = append(bc.KALog, kaEvent{Seq: bc.b.w.nextSeq(), ID: p.RandomID})
		case *cfgpacket.FinishedUpdate:
			// acknowledgement of StartUpdate (re-configuration): not used by the model
		case *plugin.Message:
		}
		if bc.OnPacket != nil {
			bc.OnPacket(rec)
		}
	}
}

// EntityID is unique per backend connection in a world.
func (bc *backendConn) EntityID() int { return 1000*(1+bc.b.index) + bc.idx }

// Live reports whether the connection is joined and still open: the backend has not seen EOF
// and the proxy has not closed its end (a stalled backend never reads the EOF).
func (bc *backendConn) Live() bool {
	return bc.Joined && !bc.EOFSeen && bc.Phase == "play" && !bc.conn.PeerGone()
}

// Kick disconnects the player from this backend while in play.
func (bc *backendConn) Kick(reason string) {
	_ = bc.send(packet.NewDisconnect(textComp(reason), bc.w.prot, state.Play.State))
	_ = bc.conn.Close()
	bc.Phase = "closed"
}

func emptyCompound() util.CompoundBinaryTag { return util.BinaryTag{Type: 10, Data: []byte{0}} }

func joinGameFor(p proto.Protocol, entityID int) *packet.JoinGame {
	lvl := "minecraft:overworld"
	lt := "default"
	j := &packet.JoinGame{
		EntityID: entityID, Gamemode: 0, Dimension: 0, PartialHashedSeed: 42, Difficulty: 1,
		MaxPlayers: 20, LevelType: &lt, ViewDistance: 8, SimulationDistance: 8,
		LevelNames: []string{lvl}, Registry: emptyCompound(), CurrentDimensionData: emptyCompound(),
		DimensionInfo: &packet.DimensionInfo{RegistryIdentifier: lvl, LevelName: &lvl}, PreviousGamemode: -1,
	}
	return j
}

func (b *backendModel) describe() string {
	out := ""
	for _, bc := range b.Conns {
		last := ""
		if n := len(bc.w.Recv); n > 0 {
			last = bc.w.Recv[n-1].String()
		}
		out += fmt.Sprintf("[conn%d phase=%s joined=%v err=%v lastErr=%v recv=%d last=%s]", bc.idx, bc.Phase, bc.Joined, bc.Err, bc.w.lastErr, len(bc.w.Recv), last)
	}
	return out
}
