package worlds

import (
	"fmt"
	"go.minekube.com/gate/pkg/edition/java/auth"
	"go.minekube.com/gate/pkg/edition/java/config"
	"sort"
	"strings"
	"time"

	"go.minekube.com/gate/pkg/edition/java/proxy"
	"go.minekube.com/gate/pkg/zzverif/simrt"
)

// C11 — player registry unique and consistent under any login/logout interleaving.
//
// Real proxy (classic, offline mode) with one backend; 2–6 clients log in concurrently
// with colliding names (case variants); some are rejected by a LoginEvent subscriber, some
// disconnect at an arbitrary point. After every scheduler step at which no simulated
// goroutine holds a lock the driver evaluates the registry invariants through the public
// API; ownership is tracked per connection (by remote address), so the rejection or
// teardown of any other connection removing a registered player is flagged.
func init() {
	Register(&Scenario{Prop: "C11", Desc: "player registry unique/consistent under login/logout interleavings", Run: runC11,
		Quick: 500, Thorough: 60000,
		Real:  "proxy.Proxy (handshake/login/auth session handlers, registerConnection/unregisterConnection, teardown, connect to initial server), netmc, codec",
		Model: "client and backend actors (Gate's packet structs over simnet), simevent manager with scripted LoginEvent subscriber"})
}

func runC11(r *Run) {
	var denyIdx map[int]bool
	// kick mode: a login with an already registered UUID disconnects the older session
	// first; names are not unique then (the newest player owns the name entry)
	kickMode := r.W.Pick(3) == 2
	// online mode (session-server model): identities come from the session server, so two
	// spellings of a name can carry the same or different UUIDs; kick mode only acts there
	online := kickMode || r.W.Pick(4) == 0
	var ss *sessionServer
	var mkAuth func(w *classicWorld) auth.Authenticator
	if online {
		mkAuth = func(w *classicWorld) auth.Authenticator {
			ss = &sessionServer{w: w, announced: map[string]string{}}
			ss.Mode = func(int) string { return "" }
			a, err := newOnlineAuthenticator(ss)
			if err != nil {
				r.HarnessError("auth.New: %v", err)
				r.Abort()
			}
			return a
		}
	}
	w := newClassicAuth(r, []string{"lobby"}, func(cfg *config.Config) {
		cfg.OnlineModeKickExistingPlayers = kickMode
		cfg.OnlineMode = online
	}, mkAuth)
	denyIdx = map[int]bool{}
	nClients := 2 + r.W.Pick(5)
	simultaneous := r.W.Pick(2) == 0 // all logins start in the same instant: the pre-check/registration window overlaps
	names := []string{"Alice", "alice", "ALICE", "Bob", "Alice", "Bob", "BOB", "bob"}
	prot := pickProtocol(r)

	// scripted LoginEvent subscriber: deny chosen connections (identified by remote address)
	ipOf := map[string]int{}
	proxyEvents(w).onLogin = func(e *proxy.LoginEvent) {
		if idx, ok := ipOf[hostOf(e.Player().RemoteAddr().String())]; ok && denyIdx[idx] {
			w.r.Fault("login_denied_by_subscriber")
			e.Deny(textComp("denied by plugin"))
		}
	}
	type discRec struct {
		addr   string
		status proxy.LoginStatus
	}
	var discs []discRec
	proxyEvents(w).onDisconnect = func(e *proxy.DisconnectEvent) {
		discs = append(discs, discRec{hostOf(e.Player().RemoteAddr().String()), e.LoginStatus()})
	}

	for i := 0; i < nClients; i++ {
		name := names[r.W.Pick(len(names))]
		mode := r.W.Pick(6) // 0,1,2 stay; 3 denied; 4 drop mid-login; 5 short stay
		stay := time.Duration(1+r.W.Pick(400)) * time.Millisecond
		delay := time.Duration(r.W.Pick(30)) * time.Millisecond
		if simultaneous {
			delay = 0
		}
		idx := i
		if mode == 3 {
			denyIdx[idx] = true
		}
		ownID := r.W.Pick(2) == 1 // this spelling has an identity of its own (else shared by all spellings)
		c := w.addClient(name, prot, func(c *clientModel) {
			if online {
				ob := &onlineBehaviour{Secret: []byte("0123456789abcdef")}
				if ownID {
					id := onlineUUID("spelling:" + fmt.Sprintf("%x", c.Name))
					ob.UUID = &id
				}
				installOnline(c, ss, ob)
			}
			if delay > 0 {
				simrt.Sleep(delay, "c11.delay")
			}
			r.Op("login:" + strings.ToLower(c.Name))
			if mode == 4 {
				c.Connect()
				_ = c.Handshake(2)
				r.Fault("client_drop_mid_login")
				c.Close()
				return
			}
			if !c.Login() {
				return
			}
			if online {
				r.Probe("online_login_ok")
			}
			if kickMode {
				r.Probe("kick_mode_login_ok")
			}
			c.StartReader()
			simrt.Sleep(stay, "c11.stay")
			r.Op("leave")
			c.Close()
		})
		ipOf[c.IP] = idx
	}

	var violated bool
	lastOwner := map[string]string{} // lower-case name -> address of the last connection seen owning the name entry
	check := func() {
		if violated {
			return
		}
		players := w.p.Players()
		count := w.p.PlayerCount()
		for _, n := range []string{"alice", "bob"} {
			if pl := w.p.PlayerByName(n); pl != nil {
				lastOwner[n] = hostOf(pl.RemoteAddr().String())
			}
		}
		ids := map[string]bool{}
		lower := map[string]string{}
		for _, pl := range players {
			if _, dup := lower[strings.ToLower(pl.Username())]; dup {
				r.Probe("same_name_two_uuids_registered")
			}
			ids[pl.ID().String()] = true
			ln := strings.ToLower(pl.Username())
			if other, dup := lower[ln]; dup && !kickMode {
				violated = true
				r.Fail("duplicate-name", "registry", "two registered players share the case-insensitive name %q (%s and %s)", ln, other, pl.RemoteAddr())
				return
			}
			lower[ln] = pl.RemoteAddr().String()
			byName := w.p.PlayerByName(pl.Username())
			if kickMode {
				// a newer player of the same name may own (or have owned) the name entry
			} else if byName == nil || byName.RemoteAddr().String() != pl.RemoteAddr().String() {
				violated = true
				r.Fail("name-id-lookup-disagree", "registry", "Player(%s) is %s at %s but PlayerByName(%q) is %v", pl.ID(), pl.Username(), pl.RemoteAddr(), pl.Username(), byName)
				return
			}
		}
		if count != len(ids) {
			violated = true
			r.Fail("count-mismatch", "registry", "PlayerCount()=%d but Players() has %d distinct UUIDs", count, len(ids))
			return
		}
		for _, n := range []string{"Alice", "Bob"} {
			if pl := w.p.PlayerByName(n); pl != nil {
				if byID := w.p.Player(pl.ID()); byID == nil || byID.RemoteAddr().String() != pl.RemoteAddr().String() {
					violated = true
					r.Fail("name-id-lookup-disagree", "registry", "PlayerByName(%q) is at %s but Player(its id) is %v", n, pl.RemoteAddr(), byID)
					return
				}
			}
		}
		// ownership: a client that was told LoginSuccess and whose connection is still up
		// on both ends must be findable, and it must be *its* connection
		for _, c := range w.clients {
			if c.LoginSuccess == nil || c.Phase == "closed" || c.conn.PeerGone() || c.conn.IsClosed() {
				continue
			}
			pl := w.p.Player(c.LoginSuccess.UUID)
			if pl == nil {
				violated = true
				r.Fail("registered-player-vanished", "ownership", "client %d (%s, %s) completed login and is still connected but Player(%s) is nil: somebody else's rejection/teardown removed it", c.idx, c.Name, c.IP, c.LoginSuccess.UUID)
				return
			}
			if hostOf(pl.RemoteAddr().String()) != c.IP {
				violated = true
				r.Fail("registered-player-replaced", "ownership", "client %d (%s, %s) completed login and is still connected but Player(%s) is the connection from %s", c.idx, c.Name, c.IP, c.LoginSuccess.UUID, pl.RemoteAddr())
				return
			}
			if bn := w.p.PlayerByName(c.Name); kickMode {

				// the newest player of that (case-insensitive) name owns the entry
				okOwner := false
				if bn != nil {
					for _, o := range w.clients {
						if hostOf(bn.RemoteAddr().String()) == o.IP && strings.EqualFold(o.Name, c.Name) {
							okOwner = true
						}
					}
				} else {
					// nobody: fine only if a newer player had replaced c's name entry
					okOwner = lastOwner[strings.ToLower(c.Name)] != c.IP
				}
				if !okOwner {
					violated = true
					r.Fail("registered-player-vanished", "kick-mode-ownership-by-name", "client %d (%s, %s) completed login and is still connected but PlayerByName finds %v", c.idx, c.Name, c.IP, bn)
					return
				}
			} else if bn == nil || hostOf(bn.RemoteAddr().String()) != c.IP {
				violated = true
				r.Fail("registered-player-vanished", "ownership-by-name", "client %d (%s, %s) completed login and is still connected but PlayerByName finds %v", c.idx, c.Name, c.IP, bn)
				return
			}
		}
		var st []string
		for ln := range lower {
			st = append(st, ln)
		}
		sort.Strings(st)
		r.State(strings.Join(st, ","))
	}
	// the registry only changes inside proxy.go (register/unregister): evaluate after every
	// step taken there and after every 6th step otherwise (anomalies persist)
	w.s.OnStep = func() {
		if w.s.Steps%6 != 0 {
			if t := w.s.Tail(1); len(t) == 0 || !strings.HasPrefix(t[0].Site, "proxy.go") {
				return
			}
		}
		simrt.DriverCall(check)
	}
	why := w.s.RunUntil(20*time.Second, func() bool { return violated || w.allClientsDone() })
	if r.Failed() {
		return
	}
	if why == "steps" {
		r.Inconclusive("step budget exhausted")
		return
	}
	// cool-down: every client closed; the registry must drain
	drained := func() bool {
		n := -1
		simrt.DriverCall(func() { n = w.p.PlayerCount() })
		return n == 0
	}
	why = w.s.RunUntil(40*time.Second, func() bool { return violated || drained() })
	w.s.RunUntil(2*time.Second, func() bool { return violated }) // let teardown events finish
	if r.Failed() {
		return
	}
	if r.CheckDeadlock() {
		return
	}
	if !w.allClientsDone() {
		r.Fail("client-stuck", "liveness", "client scripts did not finish: %+v (lock waiters %+v)", clientPhases(w), w.s.LockWaiters())
		return
	}
	if n := w.p.PlayerCount(); !drained() {
		r.Fail("registry-not-drained", "liveness", "all clients disconnected but %d players are still registered after 40 simulated seconds (%s); lock waiters %+v", n, why, w.s.LockWaiters())
		return
	}
	// DisconnectEvent status: a connection that was told LoginSuccess gets exactly one
	// DisconnectEvent and it says the login had been successful
	for _, c := range w.clients {
		n := 0
		for _, d := range discs {
			if d.addr == c.IP {
				n++
				if c.LoginSuccess != nil && d.status != proxy.SuccessfulLoginStatus && !(kickMode && d.status == proxy.ConflictingLoginStatus) {
					r.Fail("disconnect-status-wrong", "status", "client %d (%s) had completed login but its DisconnectEvent says login status %d", c.idx, c.Name, d.status)
					return
				}
				if c.LoginSuccess == nil && d.status == proxy.SuccessfulLoginStatus {
					r.Fail("disconnect-status-wrong", "status-unregistered", "client %d (%s) never completed login but its DisconnectEvent says successful", c.idx, c.Name)
					return
				}
			}
		}
		if c.LoginSuccess != nil && n != 1 {
			r.Fail("disconnect-event-count", "status", "client %d (%s) completed login; %d DisconnectEvents fired for it", c.idx, c.Name, n)
			return
		}
	}
	r.Res.Sample = map[string]any{"kick_mode": kickMode, "online": online, "clients": nClients, "protocol": int(prot), "phases": clientPhases(w), "disconnect_events": len(discs)}
}

func clientPhases(w *classicWorld) []string {
	var out []string
	for _, c := range w.clients {
		s := fmt.Sprintf("%d:%s:%s", c.idx, c.Name, c.Phase)
		if c.LoginSuccess != nil {
			s += ":loggedin"
		}
		if c.Kick != nil {
			s += ":kicked"
		}
		if !c.Done {
			s += ":running"
		}
		out = append(out, s)
	}
	return out
}

func hostOf(addr string) string {
	if i := strings.LastIndexByte(addr, ':'); i >= 0 {
		return addr[:i]
	}
	return addr
}
