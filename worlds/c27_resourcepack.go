package worlds

import (
	"fmt"
	"strings"
	"time"

	"go.minekube.com/gate/pkg/edition/java/proto/packet"
	"go.minekube.com/gate/pkg/edition/java/proto/version"
	"go.minekube.com/gate/pkg/edition/java/proxy"
	"go.minekube.com/gate/pkg/gate/proto"
	"go.minekube.com/gate/pkg/util/uuid"
	"go.minekube.com/gate/pkg/zzverif/simrt"
)

// C27 — resource-pack prompts never block and follow the client-version rules.
//
// A player in play; the backend sends ResourcePackRequests (forced / optional) and API
// caller goroutines call Player.SendResourcePack (proxy-originated); the client answers
// every prompt per tape (accept->success, decline, accept->failed). Handler families:
// < 1.17, 1.17-1.20.2, >= 1.20.3. Oracle: no deadlock (emulated locks turn a self-re-lock
// into a reported deadlock, not a hang) and every call returns; < 1.20.3: at most one
// prompt outstanding at the client, prompts per originator in queue order, a queued pack is
// skipped (auto-declined) only after the client declined one and never if it is forced on
// 1.17+; responses to backend-originated packs reach the backend, proxy-originated ones do
// not; >= 1.20.3: every pack is prompted with its id and its responses are routed by origin.
func init() {
	Register(&Scenario{Prop: "C27", Desc: "resource-pack prompts never block; version rules", Run: runC27,
		Quick: 400, Thorough: 60000,
		Real:  "proxy.Proxy: backend play handleResourcePacketRequest, client play ResourcePackResponse handling, Player.SendResourcePack, internal/resourcepack legacy / legacy117 / modern handlers",
		Model: "client/backend actors, API caller actors; per-pack tagging by URL"})
}

type c27pack struct {
	n        int
	backend  bool // backend-originated
	forced   bool
	id       uuid.UUID
	url      string
	hash     string
	noHash   bool
	issued   int // seq at which it was queued (send / API call)
	prompted int // seq of arrival at client (0 = never)
	answer   string
	finalSeq int
	apiRet   bool
}

func runC27(r *Run) {
	prots := []proto.Protocol{version.Minecraft_1_20.Protocol, version.Minecraft_1_20_2.Protocol, version.Minecraft_1_12_2.Protocol, version.Minecraft_1_8.Protocol, version.Minecraft_1_20_3.Protocol, version.Minecraft_1_21.Protocol, version.Minecraft_1_19_4.Protocol, version.Minecraft_1_15.Protocol,
		// the boundaries of the 'forced packs are still prompted' rule
		version.Minecraft_1_17.Protocol, version.Minecraft_1_17_1.Protocol, version.Minecraft_1_16_4.Protocol}
	prot := prots[r.W.Pick(len(prots))]
	modern := prot.GreaterEqual(version.Minecraft_1_20_3)
	has117 := prot.GreaterEqual(version.Minecraft_1_17)
	w := newClassic(r, []string{"lobby"}, nil)
	proxyEvents(w)
	nPacks := 1 + r.W.Pick(5)
	packs := make([]*c27pack, nPacks)
	for i := range packs {
		p := &c27pack{n: i, backend: r.W.Pick(2) == 0, forced: r.W.Pick(3) == 0}
		p.url = fmt.Sprintf("http://packs.example/%d.zip", i)
		p.hash = fmt.Sprintf("%040x", 0xabc000+i)
		p.noHash = r.W.Pick(4) == 0 // packs without a hash are legal
		if p.noHash {
			p.hash = ""
		}
		var u [16]byte
		u[0], u[15] = 0x77, byte(i+1)
		p.id = uuid.UUID(u)
		p.answer = []string{"success", "success", "decline", "failed"}[r.W.Pick(4)]
		packs[i] = p
	}
	byURL := map[string]*c27pack{}
	for _, p := range packs {
		byURL[p.url] = p
	}
	var backendResp []string // "url-less": responses seen at the backend (status list)
	backendRespByID := map[uuid.UUID][]int{}
	var backendStatuses []int
	apiCalls, apiDone := 0, 0
	outstanding := 0
	maxOutstanding := 0
	var promptOrder []int
	var cl *clientModel
	w.backends["lobby"].Beh.OnJoined = func(bc *backendConn) {
		bc.OnPacket = func(rec *pktRec) {
			if rp, ok := rec.Packet.(*packet.ResourcePackResponse); ok {
				backendStatuses = append(backendStatuses, int(rp.Status))
				backendRespByID[rp.ID] = append(backendRespByID[rp.ID], int(rp.Status))
				backendResp = append(backendResp, fmt.Sprintf("%s:%d", rp.ID, rp.Status))
			}
		}
		simrt.Sleep(20*time.Millisecond, "c27.backend-wait")
		for _, p := range packs {
			if !p.backend {
				continue
			}
			r.Op(fmt.Sprintf("backend-pack:forced=%v", p.forced))
			p.issued = w.nextSeq()
			req := &packet.ResourcePackRequest{URL: p.url, Hash: p.hash, Required: p.forced}
			if modern {
				req.ID = p.id
			}
			_ = bc.send(req)
			for i, n := 0, r.W.Pick(4); i < n; i++ {
				simrt.Yield("c27.backend")
			}
		}
	}
	cl = w.addClient("Packer", prot, func(c *clientModel) {
		c.OnPacket = func(rec *pktRec) {
			req, ok := rec.Packet.(*packet.ResourcePackRequest)
			if !ok {
				return
			}
			p := byURL[req.URL]
			if p == nil {
				return
			}
			p.prompted = rec.Seq
			promptOrder = append(promptOrder, p.n)
			outstanding++
			if outstanding > maxOutstanding {
				maxOutstanding = outstanding
			}
			id := req.ID
			ans := p.answer
			// the client answers from a goroutine of its own (the user clicks later)
			simrt.Go(func() {
				for i, n := 0, r.W.Pick(5); i < n; i++ {
					simrt.Yield("c27.user-thinks")
				}
				send := func(st packet.ResponseStatus) {
					_ = c.send(&packet.ResourcePackResponse{ID: id, Hash: p.hash, Status: st})
				}
				switch ans {
				case "decline":
					outstanding--
					p.finalSeq = w.nextSeq()
					send(packet.DeclinedResourcePackResponseStatus)
				case "failed":
					send(packet.AcceptedResourcePackResponseStatus)
					simrt.Yield("c27.download")
					outstanding--
					p.finalSeq = w.nextSeq()
					send(packet.FailedDownloadResourcePackResponseStatus)
				default:
					send(packet.AcceptedResourcePackResponseStatus)
					simrt.Yield("c27.download")
					outstanding--
					p.finalSeq = w.nextSeq()
					send(packet.SuccessfulResourcePackResponseStatus)
					if modern && r.W.Pick(3) == 0 {
						// 1.20.3+ clients report an applied pack again (e.g. after a switch)
						simrt.Yield("c27.again")
						r.Op("success-reported-again")
						send(packet.SuccessfulResourcePackResponseStatus)
					}
				}
			})
		}
		if !c.Login() {
			return
		}
		c.StartReader()
		if !c.WaitConnected(1) {
			return
		}
		pl := w.p.PlayerByName("Packer")
		if pl == nil {
			return
		}
		// proxy-originated packs: one API caller goroutine issues them in order (concurrently
		// with the backend's packs and the client's answers)
		apiCalls++
		simrt.Go(func() {
			defer func() { apiDone++ }()
			for _, p := range packs {
				if p.backend {
					continue
				}
				for i, n := 0, r.W.Pick(6); i < n; i++ {
					simrt.Yield("c27.api-delay")
				}
				r.Op(fmt.Sprintf("api-pack:forced=%v", p.forced))
				p.issued = w.nextSeq()
				h := make([]byte, 20)
				h[19] = byte(p.n + 1)
				if p.noHash {
					h = nil
				}
				_ = pl.SendResourcePack(proxy.ResourcePackInfo{ID: p.id, URL: p.url, Hash: h, ShouldForce: p.forced, Origin: proxy.PluginOnProxyResourcePackOrigin})
				p.apiRet = true
			}
		})
		simrt.Sleep(600*time.Millisecond, "c27.stay")
	})
	why := w.s.RunUntil(30*time.Second, func() bool { return w.allClientsDone() })
	if why == "steps" {
		r.Inconclusive("step budget exhausted")
		return
	}
	w.s.RunUntil(2*time.Second, nil)
	if r.CheckDeadlock() {
		return
	}
	desc := func() string {
		var ps []string
		for _, p := range packs {
			ps = append(ps, fmt.Sprintf("#%d{backend=%v forced=%v answer=%s prompted=%v}", p.n, p.backend, p.forced, p.answer, p.prompted != 0))
		}
		return fmt.Sprintf("protocol=%d packs=%v prompt-order=%v backend-responses=%v client=%v kick=%q", prot, ps, promptOrder, backendResp, clientPhases(w), cl.KickText())
	}
	if len(cl.JoinGames) == 0 {
		r.Fail("join-failed", "join", "fault-free join failed: %s", desc())
		return
	}
	if apiDone != apiCalls {
		r.Fail("sendresourcepack-never-returned", "api", "%d of %d SendResourcePack calls returned: %s", apiDone, apiCalls, desc())
		return
	}
	kickedForForced := cl.Kick != nil
	if kickedForForced && has117 && strings.Contains(cl.KickText(), "requiredTexturePrompt") {
		// (before 1.17 a forced pack queued behind a declined one is auto-declined, which kicks by design)
		// only the client's own decline (or failed download) of a forced pack it was shown justifies that kick
		justified := false
		for _, q := range packs {
			if q.forced && q.prompted != 0 && (q.answer == "decline" || q.answer == "failed") {
				justified = true
			}
		}
		if !justified {
			r.Fail("kicked-for-forced-pack-the-client-never-refused", familyC27(prot), "the player was kicked for refusing a required pack, but no forced pack that was shown to the client was declined: %s", desc())
			return
		}
	}
	if !modern {
		if maxOutstanding > 1 {
			r.Fail("two-prompts-outstanding", "legacy", "a pre-1.20.3 client had %d resource-pack prompts outstanding at once: %s", maxOutstanding, desc())
			return
		}
		// per-originator order
		for _, origin := range []bool{true, false} {
			last := -1
			for _, n := range promptOrder {
				if packs[n].backend != origin {
					continue
				}
				if packs[n].issued < last {
					r.Fail("prompt-order-wrong", "legacy", "prompts of one originator arrived out of queue order: %s", desc())
					return
				}
				last = packs[n].issued
			}
		}
		// auto-decline only after a client decline, never for forced packs on 1.17+
		if !kickedForForced {
			for _, p := range packs {
				if p.prompted != 0 || p.issued == 0 {
					continue
				}
				declinedBefore := false
				for _, q := range packs {
					if q.answer == "decline" && q.prompted != 0 {
						declinedBefore = true
					}
				}
				if p.forced && has117 {
					r.Fail("forced-pack-not-prompted", "legacy117", "forced pack #%d was never prompted on a 1.17+ client: %s", p.n, desc())
					return
				}
				if !declinedBefore {
					r.Fail("pack-skipped-without-client-decline", "legacy", "pack #%d was never prompted although the client never declined a pack: %s", p.n, desc())
					return
				}
			}
		}
	} else if !kickedForForced {
		for _, p := range packs {
			if p.issued != 0 && p.prompted == 0 {
				r.Fail("pack-not-prompted", "modern", "1.20.3+ client: pack #%d (id %s) was never prompted: %s", p.n, p.id, desc())
				return
			}
		}
		for _, p := range packs {
			if p.prompted == 0 || p.finalSeq == 0 {
				continue
			}
			got := backendRespByID[p.id]
			if p.backend && len(got) == 0 {
				r.Fail("backend-pack-response-not-forwarded", "modern", "responses for backend-originated pack #%d never reached the backend: %s", p.n, desc())
				return
			}
			if !p.backend && len(got) != 0 {
				r.Fail("proxy-pack-response-leaked-to-backend", "modern", "responses for proxy-originated pack #%d reached the backend (%v): %s", p.n, got, desc())
				return
			}
		}
	}
	if !modern && !kickedForForced {
		nb, np := 0, 0
		for _, p := range packs {
			if p.prompted != 0 && p.finalSeq != 0 {
				if p.backend {
					nb++
				} else {
					np++
				}
			}
		}
		if nb > 0 && len(backendStatuses) == 0 {
			r.Fail("backend-pack-response-not-forwarded", "legacy", "%d backend-originated packs were answered by the client, the backend saw no response: %s", nb, desc())
			return
		}
		if nb == 0 && np > 0 && len(backendStatuses) > 0 {
			r.Fail("proxy-pack-response-leaked-to-backend", "legacy", "only proxy-originated packs were prompted, yet the backend received responses %v: %s", backendStatuses, desc())
			return
		}
	}
	r.State(fmt.Sprintf("p%d n%d prompts%v", prot, nPacks, promptOrder))
	r.Res.Sample = map[string]any{"protocol": int(prot), "packs": nPacks, "prompt_order": promptOrder, "backend_responses": backendResp, "max_outstanding": maxOutstanding}
}

func familyC27(p proto.Protocol) string {
	switch {
	case p.GreaterEqual(version.Minecraft_1_20_3):
		return "modern"
	case p.GreaterEqual(version.Minecraft_1_17):
		return "legacy117"
	}
	return "legacy"
}
