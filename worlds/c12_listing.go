package worlds

import (
	"fmt"
	"sort"
	"strings"
	"time"

	"go.minekube.com/gate/pkg/edition/java/proxy"
	"go.minekube.com/gate/pkg/zzverif/simrt"
)

// C12 — listing players and servers is safe during concurrent joins and leaves.
//
// Real proxy with two backends; 3–6 clients join, switch servers and leave at tape-chosen
// moments while 1–3 lister goroutines call Players(), PlayerCount(), Servers(),
// server.Players().Range/Len and, once, DisconnectAll. The binary is built with the race
// detector: simulator hand-offs are hidden from it (simrt race hygiene), real sync.Mutex
// operations are not, so an access to shared memory that is not ordered by the code's own
// locks is reported on the serialized, replayable schedule.
// Oracles: no data-race report, no crash; every call returns (DisconnectAll included); a
// list returned by Players() contains every player that was registered during the whole
// call and nobody that was registered at no moment of the call, PlayerCount() lies between
// the minimum and maximum registry size during the call; the same for a server's player
// list.
func init() {
	Register(&Scenario{Prop: "C12", Desc: "listing players/servers and DisconnectAll during joins/leaves/switches", Run: runC12,
		Quick: 48, Thorough: 20000, Race: true, Crash: true,
		// the property is about the listing calls and the registries they read
		RaceScope: []string{"proxy.(*Proxy).Players", "proxy.(*Proxy).PlayerCount", "proxy.(*Proxy).Servers", "proxy.(*Proxy).DisconnectAll", "proxy.(*Proxy).Player(", "proxy.(*Proxy).PlayerByName",
			"proxy.(*players).", "proxy.(*Proxy).registerConnection", "proxy.(*Proxy).unregisterConnection", "proxy.(*Proxy).Register(", "proxy.(*Proxy).Unregister("},
		Real:  "proxy.Proxy (Players, PlayerCount, Servers, DisconnectAll, registerConnection/unregisterConnection), registeredServer.players, login/switch/teardown paths; Go race detector on real lock operations",
		Model: "client and backend actors, lister actors; registry membership sampled by the driver after every step"})
}

func runC12(r *Run) {
	w := newClassic(r, []string{"lobby", "s2"}, nil)
	proxyEvents(w)
	prot := pickProtocol(r)
	nClients := 3 + r.W.Pick(4)
	nListers := 1 + r.W.Pick(3)
	names := []string{"Ann", "Ben", "Cid", "Dee", "Eve", "Fay"}
	disconnectAll := r.W.Pick(2) == 0

	for i := 0; i < nClients; i++ {
		delay := time.Duration(r.W.Pick(40)) * time.Millisecond
		if disconnectAll {
			delay = time.Duration(r.W.Pick(160)) * time.Millisecond // joins keep arriving between the DisconnectAll calls
		}
		stay := time.Duration(5+r.W.Pick(300)) * time.Millisecond
		doSwitch := r.W.Pick(3) == 0
		name := names[i]
		w.addClient(name, prot, func(c *clientModel) {
			if delay > 0 {
				simrt.Sleep(delay, "c12.delay")
			}
			r.Op("join")
			if !c.Login() {
				return
			}
			c.StartReader()
			if doSwitch && c.WaitConnected(1) {
				if pl := w.p.PlayerByName(name); pl != nil {
					if s2 := w.p.Server("s2"); s2 != nil {
						r.Op("switch")
						simrt.Go(func() { _, _ = pl.CreateConnectionRequest(s2).Connect(pl.Context()) })
					}
				}
			}
			simrt.Sleep(stay, "c12.stay")
			r.Op("leave")
			c.Close()
		})
	}

	// registry membership as seen by the driver after every step (by name)
	type snap struct {
		step int
		reg  map[string]bool
		onS  map[string]string          // name -> server name
		list map[string]map[string]bool // server -> names in its player list
	}
	var hist []snap
	sample := func() {
		s := snap{step: w.s.Steps, reg: map[string]bool{}, onS: map[string]string{}, list: map[string]map[string]bool{}}
		for _, sn := range []string{"lobby", "s2"} {
			m := map[string]bool{}
			if rs := w.p.Server(sn); rs != nil {
				rs.Players().Range(func(p proxy.Player) bool { m[p.Username()] = true; return true })
			}
			s.list[sn] = m
		}
		for _, c := range w.clients {
			if pl := w.p.PlayerByName(c.Name); pl != nil {
				s.reg[c.Name] = true
				if cs := pl.CurrentServer(); cs != nil {
					s.onS[c.Name] = cs.Server().ServerInfo().Name()
				}
			}
		}
		hist = append(hist, s)
	}
	w.s.OnStep = func() { simrt.DriverCall(sample) }

	type call struct {
		kind     string
		inv, ret int
		names    []string
		n        int
		server   string
	}
	var calls []*call
	listersDone := 0
	// variant: one more caller does nothing but DisconnectAll, back to back, while players
	// keep joining and leaving (every call must return; nobody may crash)
	hammer := r.W.Pick(4) == 0
	if hammer {
		nListers++
		nHam := 20 + r.W.Pick(60)
		w.s.GoNamed("disconnect-all-caller", func() {
			defer func() { listersDone++ }()
			for i := 0; i < nHam && !w.allClientsDone(); i++ {
				c := &call{kind: "DisconnectAll", inv: w.s.Steps}
				r.Op("DisconnectAll")
				w.p.DisconnectAll(textComp("bye"))
				c.ret = w.s.Steps
				calls = append(calls, c)
				if i%4 == 3 {
					simrt.Sleep(time.Duration(1+i%7)*time.Millisecond, "c12.hammer-gap")
				} else {
					simrt.Yield("c12.hammer")
				}
			}
		})
	}
	for l := 0; l < nListers-b2i(hammer); l++ {
		nCalls := 6 + r.W.Pick(30)
		kinds := make([]int, nCalls)
		for i := range kinds {
			kinds[i] = r.W.Pick(5)
		}
		gaps := make([]int, nCalls)
		for i := range gaps {
			gaps[i] = r.W.Pick(25)
		}
		first := l == 0
		daAt := map[int]bool{r.W.Pick(nCalls): true, r.W.Pick(nCalls): true, r.W.Pick(nCalls): true, nCalls - 1: true}
		w.s.GoNamed(fmt.Sprintf("lister%d", l), func() {
			defer func() { listersDone++ }()
			for i, k := range kinds {
				if gaps[i]%3 == 0 {
					simrt.Sleep(time.Duration(1+gaps[i])*time.Millisecond, "c12.lister-gap")
				} else {
					for y := 0; y < gaps[i]%5; y++ { // back-to-back calls, a few scheduling points apart
						simrt.Yield("c12.lister")
					}
				}
				c := &call{inv: w.s.Steps}
				switch k {
				case 0, 1:
					c.kind = "Players"
					r.Op("Players")
					for _, pl := range w.p.Players() {
						if pl == nil {
							r.Fail("list-mixes-moments", "Players-nil-entry", "Players() returned a list with a nil entry (sized at one moment, filled at another)")
							return
						}
						c.names = append(c.names, pl.Username())
					}
				case 2:
					c.kind = "PlayerCount"
					r.Op("PlayerCount")
					c.n = w.p.PlayerCount()
				case 3:
					c.kind = "Servers"
					r.Op("Servers")
					for _, s := range w.p.Servers() {
						c.names = append(c.names, s.ServerInfo().Name())
					}
				case 4:
					c.kind = "ServerPlayers"
					c.server = []string{"lobby", "s2"}[i%2]
					r.Op("ServerPlayers")
					if s := w.p.Server(c.server); s != nil {
						s.Players().Range(func(p proxy.Player) bool {
							c.names = append(c.names, p.Username())
							return true
						})
						c.n = s.Players().Len()
					}
				}
				c.ret = w.s.Steps
				calls = append(calls, c)
				if first && disconnectAll && daAt[i] {
					// in the middle of the joins and leaves (and once more at the end)
					c := &call{kind: "DisconnectAll", inv: w.s.Steps}
					r.Op("DisconnectAll")
					w.p.DisconnectAll(textComp("bye"))
					c.ret = w.s.Steps
					calls = append(calls, c)
				}
			}
		})
	}
	const stepCap = 300000 // every step is sampled by the driver: keep a pathological run short
	why := w.s.RunUntil(30*time.Second, func() bool { return (w.allClientsDone() && listersDone == nListers) || w.s.Steps > stepCap })
	if why == "steps" || w.s.Steps > stepCap {
		r.Inconclusive("step budget exhausted")
		return
	}
	w.s.OnStep = nil
	w.s.RunUntil(10*time.Second, func() bool { return listersDone == nListers })
	if r.CheckDeadlock() {
		return
	}
	if listersDone != nListers {
		r.Fail("listing-call-never-returned", "liveness", "%d of %d lister goroutines returned after all clients left; parked: %+v", listersDone, nListers, w.s.Parked())
		return
	}
	// membership over a call's interval
	during := func(c *call, f func(s snap) map[string]bool) (always, ever map[string]bool, minN, maxN int) {
		always, ever = map[string]bool{}, map[string]bool{}
		first := true
		minN, maxN = 1<<30, 0
		lo, hi := c.inv-1, c.ret
		for _, s := range hist { // widen to the nearest samples around the call
			if s.step <= c.inv-1 {
				lo = s.step
			}
			if s.step >= c.ret {
				hi = s.step
				break
			}
		}
		for _, s := range hist {
			if s.step < lo || s.step > hi {
				continue
			}
			m := f(s)
			if len(m) < minN {
				minN = len(m)
			}
			if len(m) > maxN {
				maxN = len(m)
			}
			for n := range m {
				ever[n] = true
			}
			if first {
				for n := range m {
					always[n] = true
				}
				first = false
			} else {
				for n := range always {
					if !m[n] {
						delete(always, n)
					}
				}
			}
		}
		if first {
			minN = 0
		}
		return
	}
	for _, c := range calls {
		switch c.kind {
		case "Players", "PlayerCount":
			always, ever, minN, maxN := during(c, func(s snap) map[string]bool { return s.reg })
			if c.kind == "PlayerCount" {
				if c.n < minN || c.n > maxN {
					r.Fail("count-outside-observed-range", "PlayerCount", "PlayerCount() returned %d; during the call (steps %d..%d) the registry held between %d and %d players", c.n, c.inv, c.ret, minN, maxN)
					return
				}
				continue
			}
			got := map[string]bool{}
			for _, n := range c.names {
				if got[n] {
					r.Fail("list-mixes-moments", "Players-dup", "Players() returned %q twice: %v", n, c.names)
					return
				}
				got[n] = true
				if !ever[n] {
					r.Fail("list-mixes-moments", "Players-ghost", "Players() (steps %d..%d) returned %q, who was registered at no moment of the call (ever=%v)", c.inv, c.ret, n, keys(ever))
					return
				}
			}
			for n := range always {
				if !got[n] {
					r.Fail("list-mixes-moments", "Players-missing", "Players() (steps %d..%d) returned %v but %q was registered during the whole call", c.inv, c.ret, c.names, n)
					return
				}
			}
		case "Servers":
			sort.Strings(c.names)
			if strings.Join(c.names, ",") != "lobby,s2" {
				r.Fail("server-list-wrong", "Servers", "Servers() returned %v", c.names)
				return
			}
		case "ServerPlayers":
			always, ever, _, _ := during(c, func(s snap) map[string]bool { return s.list[c.server] })
			got := map[string]bool{}
			for _, n := range c.names {
				got[n] = true
				if !ever[n] {
					r.Fail("list-mixes-moments", "ServerPlayers-ghost", "%s.Players() (steps %d..%d) returned %q, who was in that server's list at no sampled moment around the call", c.server, c.inv, c.ret, n)
					return
				}
			}
			for n := range always {
				if !got[n] {
					r.Fail("list-mixes-moments", "ServerPlayers-missing", "%s.Players() (steps %d..%d) returned %v but %q was in that server's list during the whole call", c.server, c.inv, c.ret, c.names, n)
					return
				}
			}
		}
	}
	r.State(fmt.Sprintf("c%d l%d da%v calls%d", nClients, nListers, disconnectAll, len(calls)))
	r.Res.Sample = map[string]any{"clients": nClients, "listers": nListers, "disconnect_all": disconnectAll, "calls": len(calls), "protocol": int(prot), "race_build": simrt.RaceBuild}
}

func keys(m map[string]bool) []string {
	var out []string
	for k := range m {
		out = append(out, k)
	}
	sort.Strings(out)
	return out
}

func b2i(b bool) int {
	if b {
		return 1
	}
	return 0
}
