// Package mcpeer is the harness's own, independent implementation of the Minecraft Java
// wire format (written from the public protocol description, not from Gate's packet
// package): primitives, framing, zlib envelope, AES/CFB8, plus the client / backend /
// session-server actors built on it. It doubles as the reference model for "what would a
// vanilla peer make of these bytes".
package mcpeer

import (
	"bytes"
	"compress/zlib"
	"crypto/aes"
	"crypto/cipher"
	"encoding/binary"
	"errors"
	"fmt"
	"io"
	"math"
)

var ErrVarIntTooBig = errors.New("wire: varint too big")

func AppendVarInt(b []byte, v int32) []byte {
	u := uint32(v)
	for u >= 0x80 {
		b = append(b, byte(u)|0x80)
		u >>= 7
	}
	return append(b, byte(u))
}

func AppendVarLong(b []byte, v int64) []byte {
	u := uint64(v)
	for u >= 0x80 {
		b = append(b, byte(u)|0x80)
		u >>= 7
	}
	return append(b, byte(u))
}

func VarIntLen(v int32) int { return len(AppendVarInt(nil, v)) }

// Buf is a read cursor over a byte slice.
type Buf struct {
	B   []byte
	Off int
	Err error
}

func NewBuf(b []byte) *Buf { return &Buf{B: b} }

func (b *Buf) Len() int { return len(b.B) - b.Off }

func (b *Buf) fail(err error) {
	if b.Err == nil {
		b.Err = err
	}
}

func (b *Buf) Byte() byte {
	if b.Err != nil || b.Off >= len(b.B) {
		b.fail(io.ErrUnexpectedEOF)
		return 0
	}
	v := b.B[b.Off]
	b.Off++
	return v
}

func (b *Buf) Bytes(n int) []byte {
	if b.Err != nil {
		return nil
	}
	if n < 0 || b.Off+n > len(b.B) {
		b.fail(io.ErrUnexpectedEOF)
		return nil
	}
	v := b.B[b.Off : b.Off+n]
	b.Off += n
	return v
}

func (b *Buf) Rest() []byte { return b.Bytes(b.Len()) }

func (b *Buf) VarInt() int32 {
	var u uint32
	for i := 0; i < 5; i++ {
		c := b.Byte()
		if b.Err != nil {
			return 0
		}
		u |= uint32(c&0x7f) << (7 * i)
		if c&0x80 == 0 {
			return int32(u)
		}
	}
	b.fail(ErrVarIntTooBig)
	return 0
}

func (b *Buf) VarLong() int64 {
	var u uint64
	for i := 0; i < 10; i++ {
		c := b.Byte()
		if b.Err != nil {
			return 0
		}
		u |= uint64(c&0x7f) << (7 * i)
		if c&0x80 == 0 {
			return int64(u)
		}
	}
	b.fail(ErrVarIntTooBig)
	return 0
}

func (b *Buf) Bool() bool     { return b.Byte() != 0 }
func (b *Buf) U16() uint16    { v := b.Bytes(2); if v == nil { return 0 }; return binary.BigEndian.Uint16(v) }
func (b *Buf) I32() int32     { v := b.Bytes(4); if v == nil { return 0 }; return int32(binary.BigEndian.Uint32(v)) }
func (b *Buf) I64() int64     { v := b.Bytes(8); if v == nil { return 0 }; return int64(binary.BigEndian.Uint64(v)) }
func (b *Buf) F32() float32   { return math.Float32frombits(uint32(b.I32())) }
func (b *Buf) F64() float64   { return math.Float64frombits(uint64(b.I64())) }
func (b *Buf) UUID() [16]byte { var u [16]byte; copy(u[:], b.Bytes(16)); return u }

func (b *Buf) String() string {
	n := b.VarInt()
	if n < 0 || int(n) > 3*32767+3 {
		b.fail(fmt.Errorf("wire: bad string length %d", n))
		return ""
	}
	return string(b.Bytes(int(n)))
}

func (b *Buf) ByteArray() []byte {
	n := b.VarInt()
	if n < 0 {
		b.fail(fmt.Errorf("wire: negative array length %d", n))
		return nil
	}
	return append([]byte(nil), b.Bytes(int(n))...)
}

// W is an append-style writer.
type W struct{ B []byte }

func (w *W) VarInt(v int32) *W   { w.B = AppendVarInt(w.B, v); return w }
func (w *W) VarLong(v int64) *W  { w.B = AppendVarLong(w.B, v); return w }
func (w *W) Byte(v byte) *W      { w.B = append(w.B, v); return w }
func (w *W) Bool(v bool) *W      { if v { return w.Byte(1) }; return w.Byte(0) }
func (w *W) U16(v uint16) *W     { w.B = binary.BigEndian.AppendUint16(w.B, v); return w }
func (w *W) I32(v int32) *W      { w.B = binary.BigEndian.AppendUint32(w.B, uint32(v)); return w }
func (w *W) I64(v int64) *W      { w.B = binary.BigEndian.AppendUint64(w.B, uint64(v)); return w }
func (w *W) Raw(v []byte) *W     { w.B = append(w.B, v...); return w }
func (w *W) String(s string) *W  { w.VarInt(int32(len(s))); w.B = append(w.B, s...); return w }
func (w *W) ByteArray(v []byte) *W { w.VarInt(int32(len(v))); w.B = append(w.B, v...); return w }
func (w *W) UUID(u [16]byte) *W  { w.B = append(w.B, u[:]...); return w }

// Frame wraps payload (packet id + body) into a frame. threshold<0: no compression
// envelope. level is the zlib level used when compressing.
func Frame(payload []byte, threshold int, level int) []byte {
	if threshold < 0 {
		out := AppendVarInt(nil, int32(len(payload)))
		return append(out, payload...)
	}
	if len(payload) < threshold {
		out := AppendVarInt(nil, int32(len(payload)+1))
		out = append(out, 0)
		return append(out, payload...)
	}
	var z bytes.Buffer
	zw, _ := zlib.NewWriterLevel(&z, level)
	_, _ = zw.Write(payload)
	_ = zw.Close()
	inner := AppendVarInt(nil, int32(len(payload)))
	inner = append(inner, z.Bytes()...)
	out := AppendVarInt(nil, int32(len(inner)))
	return append(out, inner...)
}

// CFB8 implements AES/CFB8 as Minecraft uses it (key = iv = shared secret).
type CFB8 struct {
	blk     cipher.Block
	iv      [16]byte
	tmp     [16]byte
	decrypt bool
}

func NewCFB8(secret []byte, decrypt bool) (*CFB8, error) {
	blk, err := aes.NewCipher(secret)
	if err != nil {
		return nil, err
	}
	c := &CFB8{blk: blk, decrypt: decrypt}
	copy(c.iv[:], secret)
	return c, nil
}

func (c *CFB8) XORKeyStream(dst, src []byte) {
	for i := range src {
		c.blk.Encrypt(c.tmp[:], c.iv[:])
		in := src[i]
		out := in ^ c.tmp[0]
		copy(c.iv[:], c.iv[1:])
		if c.decrypt {
			c.iv[15] = in
		} else {
			c.iv[15] = out
		}
		dst[i] = out
	}
}

// FrameReader incrementally splits a byte stream into frames the way a vanilla peer does.
type FrameReader struct {
	buf       []byte
	Threshold int // <0: no compression
	Dec       *CFB8
	MaxFrame  int
}

func NewFrameReader() *FrameReader { return &FrameReader{Threshold: -1, MaxFrame: 1<<21 - 1} }

// Feed adds raw bytes from the transport (decrypting if enabled).
func (f *FrameReader) Feed(b []byte) {
	if f.Dec != nil {
		d := make([]byte, len(b))
		f.Dec.XORKeyStream(d, b)
		b = d
	}
	f.buf = append(f.buf, b...)
}

// EnableDecryption switches on decryption for bytes fed from now on; bytes already
// buffered but not consumed are decrypted too (they were sent after the switch).
func (f *FrameReader) EnableDecryption(secret []byte) error {
	c, err := NewCFB8(secret, true)
	if err != nil {
		return err
	}
	f.Dec = c
	if len(f.buf) > 0 {
		d := make([]byte, len(f.buf))
		c.XORKeyStream(d, f.buf)
		f.buf = d
	}
	return nil
}

var ErrNeedMore = errors.New("wire: need more bytes")

// Next returns the next payload (packet id + body), ErrNeedMore, or a protocol error.
func (f *FrameReader) Next() ([]byte, error) {
	for {
		b := NewBuf(f.buf)
		n := b.VarInt()
		if b.Err == io.ErrUnexpectedEOF {
			return nil, ErrNeedMore
		}
		if b.Err != nil {
			return nil, b.Err
		}
		if n < 0 || int(n) > f.MaxFrame {
			return nil, fmt.Errorf("wire: bad frame length %d", n)
		}
		if b.Len() < int(n) {
			return nil, ErrNeedMore
		}
		body := b.Bytes(int(n))
		f.buf = f.buf[b.Off:]
		if n == 0 {
			continue
		}
		if f.Threshold < 0 {
			return append([]byte(nil), body...), nil
		}
		ib := NewBuf(body)
		claimed := ib.VarInt()
		if ib.Err != nil {
			return nil, ib.Err
		}
		if claimed == 0 {
			return append([]byte(nil), ib.Rest()...), nil
		}
		if claimed < 0 {
			return nil, fmt.Errorf("wire: negative claimed size")
		}
		zr, err := zlib.NewReader(bytes.NewReader(ib.Rest()))
		if err != nil {
			return nil, err
		}
		out := make([]byte, claimed)
		if _, err := io.ReadFull(zr, out); err != nil {
			return nil, fmt.Errorf("wire: inflate: %w", err)
		}
		var one [1]byte
		if k, _ := zr.Read(one[:]); k != 0 {
			return nil, fmt.Errorf("wire: inflated data longer than claimed")
		}
		return out, nil
	}
}

// Buffered returns the number of undelivered bytes.
func (f *FrameReader) Buffered() int { return len(f.buf) }
