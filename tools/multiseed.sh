#!/bin/sh
# usage: tools/multiseed.sh <ID> [nseeds] [tier]  -- runs the check with several VERIF_SEED values
id=$1; n=${2:-6}; tier=${3:-quick}
bad=0
for s in $(seq 1 $n); do
  out=$(VERIF_SEED=$((s*7919+13)) /verif/vcheck $id --tier $tier 2>&1); rc=$?
  echo "$id seed=$((s*7919+13)) rc=$rc $(echo "$out" | grep -v KNOWN-FINDING | tail -1 | cut -c1-160)"
  [ $rc -ne 0 ] && bad=1
done
exit $bad
