package worlds

import (
	"bytes"
	"fmt"
	"time"

	"github.com/go-logr/logr"
	"go.minekube.com/gate/pkg/edition/java/netmc"
	"go.minekube.com/gate/pkg/edition/java/proto/state"
	"go.minekube.com/gate/pkg/gate/proto"
	"go.minekube.com/gate/pkg/zzverif/mcpeer"
	"go.minekube.com/gate/pkg/zzverif/simnet"
	"go.minekube.com/gate/pkg/zzverif/simrt"
)

// C01 — frames survive compression, encryption and arbitrary chunking.
//
// Real netmc.Writer (encoder+bufio+CFB8) on one end of a simnet link, real netmc.Reader on
// the other. Variant "script": one writer, compression/encryption switched on mid-stream at
// frame boundaries exactly as login does. Variant "multi": 2–4 concurrent writer
// goroutines, fixed settings. Faults: segmentation (whole/random/1-byte), back-pressure
// windows from 1 byte, scheduler-chosen delivery delays. Oracle: reader returns exactly
// the written payloads (per-writer order preserved, frames never interleaved), and the
// independent mcpeer decoder agrees on the raw byte stream.
func init() {
	Register(&Scenario{Prop: "C01", Desc: "frames survive compression/encryption/chunking", Run: runC01,
		Quick: 1200, Thorough: 150000,
		Real:  "netmc.Writer/Reader, codec.Encoder/Decoder, cipher (CFB8), bufio; instrumented locks",
		Model: "simnet link (segmentation, back-pressure); mcpeer.FrameReader as independent decoder"})
}

const c01ID = 0x7e // a packet id unknown to the Login-state registries => payload passes through undecoded

func c01Payload(r *Run, size int, tag uint32) []byte {
	if size < 1 {
		return nil
	}
	p := make([]byte, size)
	p[0] = c01ID
	switch r.W.Pick(3) {
	case 0: // highly compressible
		for i := 1; i < size; i++ {
			p[i] = byte(tag)
		}
	case 1: // pseudo-random (incompressible), cheap generator seeded from the tape
		x := uint64(r.W.Pick(1<<30))*2654435761 + uint64(tag) + 1
		for i := 1; i < size; i++ {
			x ^= x << 13
			x ^= x >> 7
			x ^= x << 17
			p[i] = byte(x >> 24)
		}
	default: // text-like
		for i := 1; i < size; i++ {
			p[i] = "abcdefgh {}\":,01"[(i*7+int(tag))%16]
		}
	}
	// unique tag so that each payload is attributable
	if size >= 6 {
		p[1], p[2], p[3], p[4] = byte(tag>>24), byte(tag>>16), byte(tag>>8), byte(tag)
	}
	return p
}

func c01Size(r *Run, threshold int, big bool) int {
	switch r.W.Pick(8) {
	case 0:
		return 1 + r.W.Pick(3)
	case 1:
		if threshold > 1 {
			return max(1, threshold-1+r.W.Pick(3)) // threshold-1, threshold, threshold+1
		}
		return 1 + r.W.Pick(8)
	case 2:
		return 127 + r.W.Pick(3) // VarInt length boundary
	case 3:
		return 16383 + r.W.Pick(3)
	case 4:
		if big {
			return []int{32767, 32768, 65536, 1<<20 + 1, 1<<21 - 70, 1<<21 - 2}[r.W.Pick(6)]
		}
		return 300 + r.W.Pick(300)
	default:
		return 1 + r.W.Pick(600)
	}
}

type c01step struct {
	kind    int // 0 frame, 1 compression switch, 2 encryption switch
	payload []byte
	thr     int
	secret  []byte
}

func runC01(r *Run) {
	s := r.NewSim(4_000_000)
	multi := r.W.Pick(3) == 0
	dir := proto.Direction(r.W.Pick(2)) // direction of the packets on the link
	big := r.W.Pick(6) == 0
	level := r.W.Pick(11) - 1 // -1..9
	thrChoices := []int{-1, 0, 1, 2, 64, 127, 128, 256, 1 << 14, 1 << 20}
	seg := r.SegChoice()
	window := []int{1 << 20, 1, 7, 64, 4096}[r.F.Pick(5)]
	if big {
		// 2 MiB frames: keep the simulation affordable (stated bound)
		if seg == simnet.SegByte {
			seg = simnet.SegRandom
		}
		if window < 4096 {
			window = 4096
		}
	}
	a, b := r.Pipe("w", "r", simnet.Options{Seg: seg, Window: window})
	b.KeepLog = true
	var link = struct{ a, b *simnet.Conn }{a, b}
	log := logr.Discard()
	wr := netmc.NewWriter(a, dir, 30*time.Second, level, log)
	rd := netmc.NewReader(b, dir, 30*time.Second, log)
	wr.SetState(state.Login)
	rd.SetState(state.Login)
	variant := "script"
	if multi {
		variant = "multi"
	}
	r.Res.Variant = variant

	var steps []c01step
	tag := uint32(1)
	curThr := -1
	encrypted := false
	nW := 1
	var perWriter [][]c01step
	if !multi {
		n := 3 + r.W.Pick(14)
		for i := 0; i < n; i++ {
			switch k := r.W.Pick(8); {
			case k == 0:
				curThr = thrChoices[r.W.Pick(len(thrChoices))]
				steps = append(steps, c01step{kind: 1, thr: curThr})
			case k == 1 && !encrypted:
				sec := make([]byte, 16)
				r.W.Bytes(sec)
				encrypted = true
				steps = append(steps, c01step{kind: 2, secret: sec})
			default:
				sz := c01Size(r, curThr, big)
				if curThr >= 0 && sz > 1<<21-1024 {
					sz = 1<<21 - 1024 // incompressible data grows by zlib stored-block overhead; stay under the frame cap once enveloped
				}
				steps = append(steps, c01step{kind: 0, payload: c01Payload(r, sz, tag)})
				tag++
			}
		}
		perWriter = [][]c01step{steps}
	} else {
		nW = 2 + r.W.Pick(3)
		curThr = thrChoices[r.W.Pick(len(thrChoices))]
		_ = wr.SetCompressionThreshold(curThr)
		_ = rd.SetCompressionThreshold(curThr)
		if r.W.Pick(2) == 0 {
			sec := make([]byte, 16)
			r.W.Bytes(sec)
			_ = wr.EnableEncryption(sec)
			_ = rd.EnableEncryption(sec)
			steps = append(steps, c01step{kind: 2, secret: sec})
			encrypted = true
		}
		steps = append([]c01step{{kind: 1, thr: curThr}}, steps...)
		for w := 0; w < nW; w++ {
			var mine []c01step
			n := 1 + r.W.Pick(6)
			for i := 0; i < n; i++ {
				sz := c01Size(r, curThr, big && w == 0 && i == 0)
				if sz < 6 {
					sz = 6 // every payload of the multi variant carries its (writer, index) tag, so attribution is unambiguous
				}
				if curThr >= 0 && sz > 1<<21-1024 {
					sz = 1<<21 - 1024
				}
				mine = append(mine, c01step{kind: 0, payload: c01Payload(r, sz, uint32(w+1)<<16|uint32(i+1))})
			}
			perWriter = append(perWriter, mine)
		}
	}

	total := 0
	for _, pw := range perWriter {
		for _, st := range pw {
			if st.kind == 0 {
				total++
			}
		}
	}
	// Keep the simulation affordable (stated bound): byte-wise delivery and tiny windows
	// only for streams of at most 4 KiB.
	totalBytes := 0
	for _, pw := range perWriter {
		for _, st := range pw {
			totalBytes += len(st.payload)
		}
	}
	if totalBytes > 4096 {
		if seg == simnet.SegByte {
			seg = simnet.SegRandom
			link.b.SetSeg(seg)
		}
		if window < 4096 {
			window = 4096
			link.a.SetWindow(window)
		}
	}
	var got [][]byte
	var readErr error
	writersDone := 0
	var writeErr error

	for w := 0; w < nW; w++ {
		w := w
		s.GoNamed(fmt.Sprintf("writer%d", w), func() {
			defer func() { writersDone++ }()
			for _, st := range perWriter[w] {
				switch st.kind {
				case 0:
					r.Op("frame")
					if _, err := wr.Write(st.payload); err != nil {
						writeErr = fmt.Errorf("Write(%d bytes): %w", len(st.payload), err)
						return
					}
					if err := wr.Flush(); err != nil {
						writeErr = fmt.Errorf("Flush: %w", err)
						return
					}
				case 1:
					r.Op("set-compression")
					if err := wr.SetCompressionThreshold(st.thr); err != nil {
						writeErr = err
						return
					}
				case 2:
					r.Op("enable-encryption")
					if err := wr.EnableEncryption(st.secret); err != nil {
						writeErr = err
						return
					}
				}
				simrt.Yield("c01.writer")
				progressExtra.Add(1)
			}
		})
	}
	readerDone := false
	s.GoNamed("reader", func() {
		defer func() { readerDone = true }()
		if multi {
			for len(got) < total {
				pc, err := rd.ReadPacket()
				if err != nil {
					readErr = err
					return
				}
				got = append(got, append([]byte(nil), pc.Payload...))
				progressExtra.Add(1)
			}
			return
		}
		for _, st := range steps {
			switch st.kind {
			case 0:
				pc, err := rd.ReadPacket()
				if err != nil {
					readErr = err
					return
				}
				got = append(got, append([]byte(nil), pc.Payload...))
				progressExtra.Add(1)
			case 1:
				_ = rd.SetCompressionThreshold(st.thr)
			case 2:
				_ = rd.EnableEncryption(st.secret)
			}
		}
	})
	why := s.RunUntil(120*time.Second, func() bool { return readerDone && writersDone == nW })
	if writeErr != nil {
		r.Fail("writer-error", "write", "writer failed on a healthy link: %v", writeErr)
		return
	}
	if readErr != nil {
		r.Fail("reader-error", "read", "reader failed on a stream the writer produced: %v (after %d of %d payloads; variant=%s dir=%v level=%d seg=%d window=%d)", readErr, len(got), total, variant, dir, level, seg, window)
		return
	}
	if why == "steps" {
		r.Inconclusive("step budget exhausted")
		return
	}
	if why != "done" {
		if ws := s.LockWaiters(); len(ws) > 0 {
			r.Fail("deadlock", "codec-deadlock", "stuck on locks: %+v", ws)
			return
		}
		r.Fail("stuck", "no-progress", "reader got %d of %d payloads and nothing is runnable (%s); parked=%+v", len(got), total, why, s.Parked())
		return
	}
	// Oracle 1: payload equality.
	if !multi {
		i := 0
		for _, st := range steps {
			if st.kind != 0 {
				continue
			}
			if i >= len(got) || !bytes.Equal(got[i], st.payload) {
				r.Fail("payload-mismatch", "script", "payload #%d differs: wrote %d bytes, read %d bytes", i, len(st.payload), lenAt(got, i))
				return
			}
			i++
		}
	} else {
		next := make([]int, nW)
		for gi, g := range got {
			if len(g) < 6 {
				// too short to carry a tag: match against any writer's next payload
				ok := false
				for w := 0; w < nW && !ok; w++ {
					if next[w] < len(perWriter[w]) && bytes.Equal(perWriter[w][next[w]].payload, g) {
						next[w]++
						ok = true
					}
				}
				if !ok {
					r.Fail("payload-mismatch", "multi", "read payload #%d (%d bytes) is not the next payload of any writer", gi, len(g))
					return
				}
				continue
			}
			w := int(g[1])<<8 | int(g[2])
			w--
			if w < 0 || w >= nW || next[w] >= len(perWriter[w]) || !bytes.Equal(perWriter[w][next[w]].payload, g) {
				r.Fail("payload-mismatch", "multi", "read payload #%d (%d bytes, tag writer %d) is not that writer's next payload (order broken, frames interleaved or corrupted)", gi, len(g), w)
				return
			}
			next[w]++
		}
	}
	// Oracle 2: the independent decoder accepts the same byte stream and agrees.
	fr := mcpeer.NewFrameReader()
	fr.Feed(b.RecvLog)
	gi := 0
	check := func() bool {
		p, err := fr.Next()
		if err != nil {
			r.Fail("independent-decoder-disagrees", "wire", "independent decoder fails at payload #%d: %v", gi, err)
			return false
		}
		if gi >= len(got) || !bytes.Equal(p, got[gi]) {
			r.Fail("independent-decoder-disagrees", "wire", "independent decoder read %d bytes for payload #%d, Gate's reader %d", len(p), gi, lenAt(got, gi))
			return false
		}
		gi++
		return true
	}
	for _, st := range steps {
		switch st.kind {
		case 0:
			if !multi && !check() {
				return
			}
		case 1:
			fr.Threshold = st.thr
		case 2:
			if err := fr.EnableDecryption(st.secret); err != nil {
				r.HarnessError("cfb8: %v", err)
				return
			}
		}
	}
	if multi {
		for gi < len(got) {
			if !check() {
				return
			}
		}
	}
	r.State(fmt.Sprintf("%s thr%d enc%v lvl%d seg%d win%d dir%d", variant, curThr, encrypted, level, seg, window, dir))
	r.Res.Sample = map[string]any{"variant": variant, "payloads": total, "bytes_on_wire": len(b.RecvLog), "threshold_last": curThr, "encrypted": encrypted, "level": level, "seg": int(seg), "window": window}
}

func lenAt(g [][]byte, i int) int {
	if i < len(g) {
		return len(g[i])
	}
	return -1
}
