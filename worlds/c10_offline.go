package worlds

import (
	"fmt"
	"regexp"
	"strings"
	"time"

	"go.minekube.com/gate/pkg/edition/java/proto/packet"
	"go.minekube.com/gate/pkg/edition/java/proto/version"
	"go.minekube.com/gate/pkg/gate/proto"
	"go.minekube.com/gate/pkg/util/uuid"
	"go.minekube.com/gate/pkg/zzverif/mcpeer"
)

// C10 — offline identities match vanilla and only valid usernames are admitted.
//
// Honest scope note: the identity function itself is pure; it is claimed here as observed
// end-to-end in the three-party login (client, proxy, backend) of the simulation, at the
// input diversity the tape provides. Clients log in (offline mode, forwarding none) with
// tape-generated usernames (lengths 0-20, ASCII classes, Unicode, control characters) sent
// as raw login-start payloads built with the independent wire codec. Oracle: admitted <=>
// ^[A-Za-z0-9_]{2,16}$ (reference regex); ServerLoginSuccess.UUID = independent MD5/v3 of
// "OfflinePlayer:"+name; the backend's login carries that same UUID where the protocol
// transmits one.
func init() {
	Register(&Scenario{Prop: "C10", Desc: "offline UUIDs match vanilla; only valid usernames admitted", Run: runC10,
		Quick: 600, Thorough: 80000,
		Real:  "proxy.Proxy login path (initial login handler, username check, profile.NewOffline, auth handler, backend login), uuid.OfflinePlayerUUID",
		Model: "client with raw login-start payloads (mcpeer codec), backend actor, reference regex and independent MD5/v3 UUID"})
}

var refNameRe = regexp.MustCompile(`^[A-Za-z0-9_]{2,16}$`)

func genUsername(r *Run) string {
	alpha := "abcdefghijklmnopqrstuvwxyzABCDEFGHIJKLMNOPQRSTUVWXYZ0123456789_"
	switch r.W.Pick(10) {
	case 0:
		return []string{"", "a", "ab", "abcdefghijklmnop", "abcdefghijklmnopq", "A_", "__", "0123456789012345"}[r.W.Pick(8)]
	case 1:
		return []string{"Bob Smith", "Bob-Smith", "Ünicode", "名前", "bob\x00", "bob\n", "tab\tname", "émile", "a.b", "a:b", "Bob!", "ｆｕｌｌ",
			// code points that case-fold to ASCII letters
			"\u212Aevin", "\u017Fteve", "Ste\u017F", "\u0130stan", "ma\u212A"}[r.W.Pick(17)]
	case 2:
		n := 17 + r.W.Pick(4)
		b := make([]byte, n)
		for i := range b {
			b[i] = alpha[r.W.Pick(len(alpha))]
		}
		return string(b)
	default:
		n := 1 + r.W.Pick(17)
		b := make([]byte, n)
		for i := range b {
			b[i] = alpha[r.W.Pick(len(alpha))]
		}
		if r.W.Pick(5) == 0 {
			// any ASCII byte outside the allowed set, with the neighbours of the allowed
			// ranges ('/' ':' '@' '[' '`' '{') and the bytes between 'Z' and 'a' emphasised
			bad := "/:@[`{\\]^ -.$\x7f!\"#%&'()*+,;<=>?|}~"
			b[r.W.Pick(n)] = bad[r.W.Pick(len(bad))]
		}
		return string(b)
	}
}

// genAnyName: names beyond what the login check admits (the UUID rule holds for every name).
func genAnyName(r *Run) string {
	switch r.W.Pick(4) {
	case 0:
		return genUsername(r)
	case 1:
		return []string{"玩家玩家玩家", "seventeen_chars_x", "seventeen_chars_y", ".BedrockPlayer_123456", "ÄÖÜäöüß", strings.Repeat("x", 40), "a b", ""}[r.W.Pick(8)]
	default:
		n := 1 + r.W.Pick(48)
		b := make([]byte, n)
		for i := range b {
			b[i] = byte(0x20 + r.W.Pick(0x5f))
		}
		return string(b)
	}
}

func loginStartPayload(p proto.Protocol, name string, id uuid.UUID) []byte {
	w := (&mcpeer.W{}).VarInt(0).String(name)
	switch {
	case p.GreaterEqual(version.Minecraft_1_20_2):
		w.UUID(id)
	case p.GreaterEqual(version.Minecraft_1_19_3):
		w.Bool(true).UUID(id)
	case p.GreaterEqual(version.Minecraft_1_19_1):
		w.Bool(false).Bool(true).UUID(id)
	case p.GreaterEqual(version.Minecraft_1_19):
		w.Bool(false)
	}
	return w.B
}

func runC10(r *Run) {
	// the UUID rule, for every name (also names the login check would not admit)
	for i := 0; i < 4; i++ {
		nm := genAnyName(r)
		if got, want := uuid.OfflinePlayerUUID(nm), offlineUUID(nm); got != want {
			r.Fail("offline-uuid-differs-from-vanilla", "uuid-function", "OfflinePlayerUUID(%q) = %s, vanilla's name-based UUID is %s", nm, got, want)
			return
		}
	}
	w := newClassic(r, []string{"lobby"}, nil)
	proxyEvents(w)
	prot := pickProtocol(r)
	n := 1 + r.W.Pick(3)
	type res struct {
		name string
		c    *clientModel
	}
	var rs []res
	used := map[string]bool{}
	for i := 0; i < n; i++ {
		name := genUsername(r)
		for used[name] || used[lowerASCII(name)] {
			name = genUsername(r) + fmt.Sprint(i)
		}
		used[name], used[lowerASCII(name)] = true, true
		r.Op("login")
		c := w.addClient(name, prot, func(c *clientModel) {
			c.Connect()
			c.Phase = "login"
			if c.Handshake(2) != nil {
				return
			}
			if c.sendRaw(loginStartPayload(prot, name, offlineUUID(name))) != nil {
				c.noteClosed()
				return
			}
			if c.readUntilJoined() {
				c.StartReader()
				simrtSleep(50 * time.Millisecond)
			}
			c.Close()
		})
		rs = append(rs, res{name, c})
	}
	why := w.s.RunUntil(20*time.Second, func() bool { return w.allClientsDone() })
	if why == "steps" {
		r.Inconclusive("step budget exhausted")
		return
	}
	if r.CheckDeadlock() {
		return
	}
	for _, x := range rs {
		valid := refNameRe.MatchString(x.name)
		admitted := x.c.LoginSuccess != nil
		if valid != admitted {
			r.Fail("username-admission-wrong", fmt.Sprintf("valid=%v", valid), "username %q (valid per ^[A-Za-z0-9_]{2,16}$: %v) admitted=%v (kick %q)", x.name, valid, admitted, x.c.KickText())
			return
		}
		if !admitted {
			continue
		}
		want := offlineUUID(x.name)
		if x.c.LoginSuccess.UUID != want || x.c.LoginSuccess.Username != x.name {
			r.Fail("offline-uuid-wrong", "client", "username %q: ServerLoginSuccess carries %s / %q, vanilla offline UUID is %s", x.name, x.c.LoginSuccess.UUID, x.c.LoginSuccess.Username, want)
			return
		}
		for _, bc := range w.backends["lobby"].Conns {
			if bc.Login != nil && bc.Login.Username == x.name && prot.GreaterEqual(version.Minecraft_1_19_1) {
				if bc.Login.HolderID != want {
					r.Fail("offline-uuid-wrong", "backend", "username %q: backend login carries holder id %s, vanilla offline UUID is %s", x.name, bc.Login.HolderID, want)
					return
				}
			}
		}
	}
	var names []string
	for _, x := range rs {
		names = append(names, fmt.Sprintf("%q", x.name))
	}
	r.State(fmt.Sprint(names))
	r.Res.Sample = map[string]any{"protocol": int(prot), "names": names}
	_ = packet.ServerLogin{}
}

func lowerASCII(s string) string {
	b := []byte(s)
	for i, c := range b {
		if c >= 'A' && c <= 'Z' {
			b[i] = c + 32
		}
	}
	return string(b)
}
