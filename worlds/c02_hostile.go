package worlds

import (
	"bytes"
	"compress/zlib"
	"fmt"
	"io"
	"runtime"
	"time"

	"github.com/go-logr/logr"
	"go.minekube.com/gate/pkg/edition/java/netmc"
	"go.minekube.com/gate/pkg/edition/java/proto/state"
	"go.minekube.com/gate/pkg/gate/proto"
	"go.minekube.com/gate/pkg/zzverif/mcpeer"
	"go.minekube.com/gate/pkg/zzverif/simnet"
)

// C02 — frame decoding matches the vanilla/Velocity acceptance rules on hostile streams.
//
// A hostile peer actor writes a byte stream built from valid frames by mutation
// (adversarial length prefixes and claimed sizes, truncated / over-long zlib bodies,
// empty frames) to a real netmc.Reader, in both directions and for many thresholds. The
// stream is delivered in tape-chosen segments, may stall in the middle of a frame and may
// end (EOF) at any byte. Oracle: an independent reference decoder written from the rules
// quoted in the property; same payload sequence, reject where it rejects, never a payload
// from a partial frame, no panic, no blocking once a complete frame is available, bounded
// allocation per Decode.
func init() {
	Register(&Scenario{Prop: "C02", Desc: "hostile streams vs reference frame decoder", Run: runC02,
		Quick: 3000, Thorough: 400000, Crash: true,
		Real:  "netmc.Reader, codec.Decoder (framing, compression envelope, caps), util VarInt reader, bufio",
		Model: "hostile peer actor; refFrameDecode = independent decoder from the Velocity MinecraftVarintFrameDecoder/MinecraftCompressDecoder rules quoted in the property"})
}

const (
	refMaxFrame = 1<<21 - 1
	refCapC2S   = 2 << 20 // from clients
	refCapS2C   = 8 << 20 // from servers
)

type refEnd int

const (
	refClean    refEnd = iota // stream ended at a frame boundary
	refNeedMore               // stream ended inside a frame
	refReject                 // a frame is rejected
	refDontCare               // the property does not fix the outcome from here (non-minimal length prefix, trailing garbage after the zlib stream, >10 empty frames)
)

// refFrameDecode is the reference: what the Velocity frame + compression decoders yield.
func refFrameDecode(stream []byte, threshold int, serverbound bool) (payloads [][]byte, end refEnd, why string) {
	cap_ := refCapS2C
	if serverbound {
		cap_ = refCapC2S
	}
	off := 0
	empties := 0
	for off < len(stream) {
		// length prefix: at most 3 bytes (21 bits)
		var length uint32
		n := 0
		for {
			if off+n >= len(stream) {
				return payloads, refNeedMore, "inside length prefix"
			}
			c := stream[off+n]
			length |= uint32(c&0x7f) << (7 * n)
			n++
			if c&0x80 == 0 {
				break
			}
			if n == 3 {
				// more than 21 bits: Velocity "bad packet length"
				return payloads, refReject, "length prefix wider than 21 bits"
			}
		}
		// minimal encoding?
		if min := len(mcpeer.AppendVarInt(nil, int32(length))); min != n {
			return payloads, refDontCare, "non-minimal length prefix"
		}
		if length == 0 {
			off += n
			empties++
			if empties > 10 {
				return payloads, refDontCare, "more than 10 consecutive empty frames"
			}
			continue
		}
		if off+n+int(length) > len(stream) {
			return payloads, refNeedMore, "inside frame body"
		}
		body := stream[off+n : off+n+int(length)]
		off += n + int(length)
		empties = 0
		if threshold < 0 {
			payloads = append(payloads, body)
			continue
		}
		b := mcpeer.NewBuf(body)
		claimed := b.VarInt()
		if b.Err != nil {
			return payloads, refReject, "bad claimed-size varint"
		}
		if claimed == 0 {
			rest := b.Rest()
			if len(rest) > threshold {
				return payloads, refReject, "uncompressed frame larger than threshold"
			}
			if len(rest) == 0 {
				// an empty payload after the envelope: nothing to deliver; treat like an empty frame
				empties++
				continue
			}
			payloads = append(payloads, rest)
			continue
		}
		if claimed < 0 {
			return payloads, refReject, "negative claimed size"
		}
		if int(claimed) < threshold {
			return payloads, refReject, "claimed size below threshold"
		}
		if int(claimed) > cap_ {
			return payloads, refReject, "claimed size above direction cap"
		}
		zdata := b.Rest()
		zr, err := zlib.NewReader(bytes.NewReader(zdata))
		if err != nil {
			return payloads, refReject, "bad zlib header"
		}
		out := make([]byte, int(claimed))
		if _, err := io.ReadFull(zr, out); err != nil {
			return payloads, refReject, "body does not inflate to exactly the claimed size"
		}
		// the stream must end here, complete (Velocity: inflater.finished()); anything else
		// - more data, a missing trailer, a bad checksum - is a reject
		var one [1]byte
		if m, err := io.ReadFull(zr, one[:]); m != 0 || err != io.EOF {
			return payloads, refReject, "body does not inflate to exactly the claimed size"
		}
		payloads = append(payloads, out)
	}
	return payloads, refClean, ""
}

func c02Content(r *Run, n int) []byte {
	p := make([]byte, n)
	if n > 0 {
		p[0] = c01ID
	}
	mode := r.W.Pick(2)
	x := uint32(r.W.Pick(1 << 20))
	for i := 1; i < n; i++ {
		if mode == 0 {
			p[i] = byte(x)
		} else {
			x = x*1664525 + 1013904223
			p[i] = byte(x >> 16)
		}
	}
	return p
}

func zlibBytes(p []byte) []byte {
	var z bytes.Buffer
	zw := zlib.NewWriter(&z)
	_, _ = zw.Write(p)
	_ = zw.Close()
	return z.Bytes()
}

func rawFrame(body []byte) []byte { return append(mcpeer.AppendVarInt(nil, int32(len(body))), body...) }

// c02Frame builds one (possibly hostile) frame; returns bytes and a label.
func c02Frame(r *Run, threshold int, cap_ int, allowBig bool) ([]byte, string) {
	size := func() int {
		switch r.W.Pick(6) {
		case 0:
			return 1 + r.W.Pick(4)
		case 1:
			if threshold > 0 {
				return max(1, threshold-1+r.W.Pick(3))
			}
			return 1 + r.W.Pick(64)
		case 2:
			return 126 + r.W.Pick(4)
		default:
			return 1 + r.W.Pick(400)
		}
	}
	kind := r.W.Pick(20)
	if threshold < 0 {
		switch kind {
		case 0:
			return []byte{0}, "empty"
		case 1:
			return []byte{0xff, 0xff, 0xff, 0xff, 0x0f}, "len=-1"
		case 2:
			return mcpeer.AppendVarInt(nil, 1<<21), "len=2^21"
		case 3:
			return mcpeer.AppendVarInt(nil, int32(1<<21+r.W.Pick(1<<28))), "len>2^21"
		case 4:
			return []byte{0xff, 0xff, 0xff, 0xff, 0xff, 0x01}, "len-6-bytes"
		case 5:
			if allowBig {
				return rawFrame(c02Content(r, refMaxFrame)), "len=2^21-1"
			}
		case 6:
			// non-minimal length prefix (don't-care)
			p := c02Content(r, 1+r.W.Pick(20))
			return append([]byte{byte(len(p)) | 0x80, 0x00}, p...), "nonminimal-len"
		}
		return rawFrame(c02Content(r, size())), "valid"
	}
	env := func(claimed int32, data []byte) []byte {
		return rawFrame(append(mcpeer.AppendVarInt(nil, claimed), data...))
	}
	switch kind {
	case 0:
		return []byte{0}, "empty"
	case 1:
		return []byte{0xff, 0xff, 0xff, 0xff, 0x0f}, "len=-1"
	case 2:
		return mcpeer.AppendVarInt(nil, int32(1<<21+r.W.Pick(1<<28))), "len>=2^21"
	case 3: // negative claimed size with a plausible body
		p := c02Content(r, 1+r.W.Pick(40))
		return env([]int32{-1, -2147483648, -128}[r.W.Pick(3)], p), "claimed<0"
	case 4: // uncompressed, exactly threshold / threshold+1 / threshold-1
		n := threshold - 1 + r.W.Pick(3)
		if n < 1 {
			n = 1
		}
		return env(0, c02Content(r, n)), fmt.Sprintf("uncompressed(%d vs thr %d)", n, threshold)
	case 5: // claimed below threshold but compressed
		if threshold >= 2 {
			n := 1 + r.W.Pick(threshold-1)
			p := c02Content(r, n)
			return env(int32(n), zlibBytes(p)), "claimed<threshold"
		}
	case 6: // claimed > actual inflate size
		p := c02Content(r, max(threshold, 1)+r.W.Pick(200))
		return env(int32(len(p)+1+r.W.Pick(50)), zlibBytes(p)), "claimed>actual"
	case 7: // claimed < actual inflate size (over-long body)
		p := c02Content(r, max(threshold, 1)+1+r.W.Pick(200))
		c := len(p) - 1 - r.W.Pick(min(len(p)-1, 20))
		if c < max(threshold, 1) {
			c = max(threshold, 1)
		}
		if c >= len(p) {
			break
		}
		return env(int32(c), zlibBytes(p)), "claimed<actual"
	case 8: // truncated zlib body
		p := c02Content(r, max(threshold, 1)+r.W.Pick(300))
		z := zlibBytes(p)
		cut := 1 + r.W.Pick(len(z)-1)
		return env(int32(len(p)), z[:cut]), "truncated-zlib"
	case 9: // corrupted zlib body
		p := c02Content(r, max(threshold, 1)+r.W.Pick(300))
		z := zlibBytes(p)
		z[r.W.Pick(len(z))] ^= byte(1 + r.W.Pick(255))
		return env(int32(len(p)), z), "corrupt-zlib"
	case 10: // claimed at / above the direction cap
		if allowBig {
			over := r.W.Pick(3) - 1 // cap-1, cap, cap+1
			n := cap_ + over
			p := make([]byte, n)
			p[0] = c01ID
			if over > 0 {
				// body irrelevant: must be rejected on the claim alone; keep it small
				return env(int32(n), zlibBytes(p[:64])), "claimed=cap+1"
			}
			return env(int32(n), zlibBytes(p)), fmt.Sprintf("claimed=cap%+d", over)
		}
	case 11: // claimed huge
		return env(int32(1<<30+r.W.Pick(1<<30)), zlibBytes(c02Content(r, 30))), "claimed-huge"
	case 12: // bad claimed varint (frame body is only continuation bytes)
		return rawFrame([]byte{0x80, 0x80}), "claimed-varint-truncated"
	case 13: // envelope with claimed 0 and empty payload
		return rawFrame([]byte{0}), "uncompressed-empty"
	case 14, 15: // claimed size as a 5-byte VarInt whose last byte carries bits beyond 32 (dropped, as Velocity's reader does)
		pad := func(v int32) []byte {
			u := uint32(v)
			return []byte{byte(u) | 0x80, byte(u>>7) | 0x80, byte(u>>14) | 0x80, byte(u>>21) | 0x80, byte(u>>28)&0x0f | byte(1+r.W.Pick(7))<<4}
		}
		p := c02Content(r, size())
		if kind == 14 && len(p) <= threshold {
			return rawFrame(append(pad(0), p...)), "claimed-varint-overflow-bits:uncompressed"
		}
		if len(p) >= threshold && len(p) > 0 {
			return rawFrame(append(pad(int32(len(p))), zlibBytes(p)...)), "claimed-varint-overflow-bits:compressed"
		}
		return env(0, p), "valid-uncompressed"
	}
	// valid frame
	p := c02Content(r, size())
	if len(p) < threshold || (len(p) == threshold && r.W.Pick(2) == 0) {
		return env(0, p), "valid-uncompressed"
	}
	if len(p) < max(threshold, 1) {
		return env(0, p), "valid-uncompressed"
	}
	return env(int32(len(p)), zlibBytes(p)), "valid-compressed"
}

func runC02(r *Run) {
	s := r.NewSim(3_000_000)
	serverbound := r.W.Pick(2) == 0
	dir := proto.ClientBound
	cap_ := refCapS2C
	if serverbound {
		dir, cap_ = proto.ServerBound, refCapC2S
	}
	threshold := []int{-1, -1, 0, 1, 2, 64, 128, 256, 1024}[r.W.Pick(9)]
	allowBig := r.W.Pick(10) == 0
	var stream []byte
	var labels []string
	nFrames := 1 + r.W.Pick(8)
	emptyRun := 0
	for i := 0; i < nFrames; i++ {
		f, l := c02Frame(r, threshold, cap_, allowBig)
		if l == "empty" || l == "uncompressed-empty" {
			emptyRun++
			if emptyRun > 9 {
				continue
			}
		} else {
			emptyRun = 0
		}
		stream = append(stream, f...)
		labels = append(labels, l)
		r.Op(l)
	}
	// EOF at an arbitrary byte (fault), or leave the connection open.
	closeAfter := false
	if r.F.Pick(3) == 1 && len(stream) > 1 {
		stream = stream[:1+r.F.Pick(len(stream)-1)]
		r.Fault("eof_at_arbitrary_byte")
		closeAfter = true
	} else if r.F.Pick(2) == 1 {
		closeAfter = true
	}
	seg := r.SegChoice()
	if len(stream) > 8192 && seg == simnet.SegByte {
		seg = simnet.SegRandom
	}
	a, b := r.Pipe("hostile", "gate", simnet.Options{Seg: seg})
	rd := netmc.NewReader(b, dir, 30*time.Second, logr.Discard())
	rd.SetState(state.Login)
	_ = rd.SetCompressionThreshold(threshold)

	want, end, why := refFrameDecode(stream, threshold, serverbound)

	var got [][]byte
	var gotErr error
	readerDone := false
	var maxAlloc uint64
	s.GoNamed("gate-reader", func() {
		defer func() { readerDone = true }()
		var ms runtime.MemStats
		for {
			runtime.ReadMemStats(&ms)
			before := ms.TotalAlloc
			pc, err := rd.ReadPacket()
			runtime.ReadMemStats(&ms)
			if d := ms.TotalAlloc - before; d > maxAlloc {
				maxAlloc = d
			}
			if err != nil {
				if err == netmc.ErrReadPacketRetry {
					continue
				}
				gotErr = err
				return
			}
			got = append(got, append([]byte(nil), pc.Payload...))
		}
	})
	// hostile writer: writes in 1–3 chunks with stalls in between (mid-frame), then maybe closes
	writerDone := false
	s.GoNamed("hostile", func() {
		defer func() { writerDone = true }()
		rest := stream
		for len(rest) > 0 {
			n := len(rest)
			if r.F.Pick(3) == 2 && n > 1 {
				n = 1 + r.F.Pick(n-1)
				r.Fault("stall_mid_stream")
			}
			_, _ = a.Write(rest[:n])
			rest = rest[n:]
			if len(rest) > 0 {
				time.Sleep(time.Duration(1+r.F.Pick(2000)) * time.Millisecond)
			}
		}
		if closeAfter {
			_ = a.Close()
		}
	})
	// run to the first quiescence after the writer is finished, without letting read timeouts fire
	why2 := s.RunUntil(3600*time.Second, func() bool { return readerDone || writerDone })
	if why2 != "steps" && !readerDone {
		// the writer is finished: give the reader the chance to consume what is there, but
		// stop at the first quiescence (a read timeout must not fire)
		why2 = s.RunUntil(time.Second, func() bool { return readerDone })
	}
	if why2 == "steps" {
		r.Inconclusive("step budget exhausted")
		return
	}
	desc := func() string {
		return fmt.Sprintf("dir=%v threshold=%d frames=%v stream=%d bytes closeAfter=%v; reference: %d payloads then %v (%s); gate: %d payloads, err=%v",
			dir, threshold, labels, len(stream), closeAfter, len(want), end, why, len(got), gotErr)
	}
	// allocation bound: one frame body + one inflate target + slack, independent of the claimed numbers
	// (TotalAlloc is process-wide: it also counts the harness's own copies of the stream
	// made while Decode was blocked, hence the generous multiple; an uncapped length prefix
	// or claimed size allocates up to 2^28..2^31 bytes and is still far above it)
	if bound := uint64(8*refMaxFrame + cap_ + 4<<20); maxAlloc > bound {
		r.Fail("allocation", "alloc", "a single Decode allocated %d bytes (> %d): %s", maxAlloc, bound, desc())
		return
	}
	// payload prefix agreement
	n := min(len(got), len(want))
	for i := 0; i < n; i++ {
		if !bytes.Equal(got[i], want[i]) {
			r.Fail("payload-differs", "payload", "payload #%d differs (gate %d bytes, reference %d bytes): %s", i, len(got[i]), len(want[i]), desc())
			return
		}
	}
	sig := "frames"
	if len(labels) > 0 {
		sig = labels[min(len(want), len(labels)-1)]
	}
	switch end {
	case refDontCare:
		// outcome after this point is not fixed by the property; only the common prefix was compared
		if len(got) < len(want) && gotErr == nil && readerDone {
			r.HarnessError("reader ended without error")
		}
	case refReject:
		if len(got) > len(want) {
			r.Fail("accepted-where-reference-rejects", why, "gate delivered a payload from a frame the reference rejects (%s): %s", why, desc())
			return
		}
		if len(got) < len(want) {
			r.Fail("rejected-valid-frame", "early", "gate stopped before a frame the reference accepts: %s", desc())
			return
		}
		if gotErr == nil {
			r.Fail("no-reject", why, "reference rejects (%s) but gate neither failed nor delivered; it is blocked waiting for more bytes: %s", why, desc())
			return
		}
	case refNeedMore, refClean:
		if len(got) > len(want) {
			r.Fail("payload-from-partial-frame", "partial", "gate delivered more payloads than complete frames exist: %s", desc())
			return
		}
		if len(got) < len(want) {
			if gotErr != nil {
				r.Fail("rejected-valid-frame", sig, "gate failed (%v) on a frame the reference accepts: %s", gotErr, desc())
			} else {
				r.Fail("blocked-with-complete-frame", "blocked", "a complete valid frame is available but gate did not deliver it: %s", desc())
			}
			return
		}
		if closeAfter {
			if gotErr == nil {
				r.Fail("no-error-at-eof", "eof", "stream ended (EOF) but the reader neither failed nor finished: %s", desc())
				return
			}
		} else if gotErr != nil {
			r.Fail("spurious-error", "spurious", "reader failed although the stream is a valid prefix and the connection is open: %s", desc())
			return
		}
	}
	r.State(fmt.Sprintf("thr%d dir%v end%d n%d", threshold, dir, end, len(want)))
	r.Res.Sample = map[string]any{"frames": labels, "threshold": threshold, "direction": dir.String(), "reference_end": int(end), "reference_reason": why, "payloads": len(want), "stream_bytes": len(stream)}
}
