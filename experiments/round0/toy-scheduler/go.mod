module e5

go 1.26
