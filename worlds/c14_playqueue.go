package worlds

import (
	"context"
	"fmt"
	"strings"
	"time"

	"github.com/go-logr/logr"
	"go.minekube.com/gate/pkg/edition/java/netmc"
	"go.minekube.com/gate/pkg/edition/java/proto/codec"
	"go.minekube.com/gate/pkg/edition/java/proto/packet"
	cfgpacket "go.minekube.com/gate/pkg/edition/java/proto/packet/config"
	"go.minekube.com/gate/pkg/edition/java/proto/state"
	"go.minekube.com/gate/pkg/edition/java/proto/version"
	"go.minekube.com/gate/pkg/gate/proto"
	"go.minekube.com/gate/pkg/zzverif/simnet"
	"go.minekube.com/gate/pkg/zzverif/simrt"
)

// C14 — packets sent during configuration are delivered after it, in order, without loss.
//
// A real client-side minecraftConn (1.20.2+) over simnet. 2–4 writer goroutines write
// uniquely tagged play-only packets (TabCompleteResponse) and config-valid packets
// (KeepAlive). A state-changer goroutine performs the protocol's own enter/leave sequence
// repeatedly exactly as the proxy does (StartUpdate, writer->Config, EnablePlayPacketQueue,
// Flush ... FinishedUpdate, SetOutboundState(Play)). The peer is a vanilla-client model:
// it switches decode state on StartUpdate/FinishedUpdate and must be able to decode every
// packet in its current state.
//
// Variant "phased": writers run only between complete enter/leave steps (they still race
// with each other and with the queue). Variant "racy": writers race with the state changes
// at lock granularity. Variant "overflow": > 1024 held packets must close the connection.
func init() {
	Register(&Scenario{Prop: "C14", Desc: "play packets held during config, released in order, bounded", Run: runC14,
		Quick: 1500, Thorough: 200000,
		Real:  "netmc.minecraftConn (bufferPacket, ensurePlayPacketQueue, SetOutboundState, EnablePlayPacketQueue), queue.PlayPacketQueue, codec.Encoder",
		Model: "vanilla-client model on the peer side (state switching on StartUpdate/FinishedUpdate; packet identification with Gate's registry - ids are not the property under test); writers and the state changer are harness actors mirroring player.switchToConfigState / handleBackendFinishUpdate"})
}

type c14write struct {
	writer   int
	tag      int
	play     bool // play-only packet
	inv, ret int
	err      error
	episode  int  // config episode count at invocation (odd = in config as seen by the changer)
	inConfig bool // state-changer considered the client in config when the write was invoked
}

func runC14(r *Run) {
	s := r.NewSim(600000)
	variant := []string{"phased", "racy", "racy", "overflow"}[r.W.Pick(4)]
	ackSteps := r.W.Pick(2) == 1 // also replay the read loop's SetState(Config) / SetState(Play) on the client's acknowledgements
	r.Res.Variant = variant
	prot := []proto.Protocol{version.Minecraft_1_20_2.Protocol, version.Minecraft_1_20_5.Protocol, version.Minecraft_1_21_2.Protocol}[r.W.Pick(3)]
	peer, base := r.Pipe("client", "gate", simnet.Options{Seg: r.SegChoice()})
	conn, _ := netmc.NewMinecraftConn(context.Background(), base, proto.ServerBound, 30*time.Second, 30*time.Second, -1, nil)
	conn.SetProtocol(prot)
	conn.SetState(state.Play)

	seq := 0
	inConfig := false // as driven by the changer (true from the moment StartUpdate is buffered until SetOutboundState(Play) returned)
	episode := 0
	var leaveInv, leaveRet []int // per episode
	var writes []*c14write
	entered := false   // the complete enter sequence has been performed
	var chgIv [][2]int // [inv,ret] sequence-number intervals of every enter / leave step sequence
	phaseGate := 0     // phased variant: number of writers allowed to proceed concurrently with no state change in progress
	changing := false

	nW := 2 + r.W.Pick(3)
	perW := 2 + r.W.Pick(6)
	if variant == "overflow" {
		nW, perW = 1, 1030
	}
	writersDone := 0
	changerDone := false

	for w := 0; w < nW; w++ {
		w := w
		kinds := make([]bool, perW)
		for i := range kinds {
			kinds[i] = r.W.Pick(4) != 0 // mostly play-only
			if variant == "overflow" {
				kinds[i] = true
			}
		}
		useBuffer := r.W.Pick(3) == 0
		s.GoNamed(fmt.Sprintf("writer%d", w), func() {
			defer func() { writersDone++ }()
			for i, play := range kinds {
				if variant == "phased" {
					for changing {
						simrt.Yield("c14.wait-phase")
					}
				}
				if variant == "overflow" {
					for !entered {
						simrt.Yield("c14.wait-config")
					}
				}
				rec := &c14write{writer: w, tag: w*100000 + i + 1, play: play, inConfig: inConfig, episode: episode}
				seq++
				rec.inv = seq
				writes = append(writes, rec)
				var p proto.Packet
				if play {
					r.Op("play")
					p = &packet.TabCompleteResponse{TransactionID: rec.tag}
				} else {
					r.Op("cfgvalid")
					p = &packet.KeepAlive{RandomID: int64(rec.tag)}
				}
				phaseGate++
				if useBuffer {
					rec.err = conn.BufferPacket(p)
					if rec.err == nil {
						rec.err = conn.Flush()
					}
				} else {
					rec.err = conn.WritePacket(p)
				}
				phaseGate--
				seq++
				rec.ret = seq
				if rec.err != nil {
					return
				}
				if variant != "overflow" {
					simrt.Yield("c14.writer")
				}
			}
		})
	}
	nEpisodes := 1 + r.W.Pick(3)
	s.GoNamed("changer", func() {
		defer func() { changerDone = true }()
		for e := 0; e < nEpisodes; e++ {
			for i, n := 0, r.W.Pick(4); i < n; i++ {
				simrt.Yield("c14.changer-delay")
			}
			if variant == "phased" {
				changing = true
				for phaseGate > 0 {
					simrt.Yield("c14.changer-wait")
				}
			}
			// enter config: exactly player.switchToConfigState
			r.Op("enter-config")
			inConfig = true
			episode++
			seq++
			enterInv := seq
			_ = conn.BufferPacket(new(cfgpacket.StartUpdate))
			conn.Writer().SetState(state.Config)
			conn.EnablePlayPacketQueue()
			_ = conn.Flush()
			seq++
			chgIv = append(chgIv, [2]int{enterInv, seq})
			entered = true
			changing = false
			if variant == "overflow" {
				for writersDone < nW {
					simrt.Yield("c14.changer-wait-overflow")
				}
				return
			}
			for i, n := 0, 1+r.W.Pick(6); i < n; i++ {
				simrt.Yield("c14.changer-in-config")
			}
			if ackSteps {
				// the client's acknowledgement of StartUpdate arrives: the read loop switches the
				// whole connection to Config (SwitchSessionHandler -> SetState) while packets may
				// already be held
				r.Op("client-ack-config")
				conn.SetState(state.Config)
				for i, n := 0, r.W.Pick(4); i < n; i++ {
					simrt.Yield("c14.changer-in-config")
				}
			}
			if variant == "phased" {
				changing = true
				for phaseGate > 0 {
					simrt.Yield("c14.changer-wait")
				}
			}
			// leave config: exactly clientConfigSessionHandler.handleBackendFinishUpdate
			r.Op("leave-config")
			seq++
			leaveInv = append(leaveInv, seq)
			_ = conn.WritePacket(&cfgpacket.FinishedUpdate{})
			conn.SetOutboundState(state.Play)
			if ackSteps {
				// ... and its acknowledgement of FinishedUpdate switches the connection to Play
				conn.SetState(state.Play)
			}
			seq++
			leaveRet = append(leaveRet, seq)
			chgIv = append(chgIv, [2]int{leaveInv[len(leaveInv)-1], seq})
			entered = false
			inConfig = false
			episode++
			changing = false
		}
	})

	// Vanilla client model: decode with state switching.
	dec := codec.NewDecoder(peer, proto.ClientBound, logr.Discard())
	dec.SetProtocol(prot)
	dec.SetState(state.Play)
	type arrival struct {
		tag    int
		play   bool
		config bool // model was in config when it arrived
		marker string
	}
	var arrivals []arrival
	clientConfig := false
	var clientErr string
	clientDone := false
	s.GoNamed("client", func() {
		defer func() { clientDone = true }()
		for {
			pc, err := dec.Decode()
			if err != nil {
				if pc != nil && pc.Packet != nil {
					clientErr = fmt.Sprintf("packet %T failed to decode in client state config=%v: %v", pc.Packet, clientConfig, err)
				} else if es := err.Error(); strings.Contains(es, "error decoding packet") {
					clientErr = fmt.Sprintf("client in state config=%v failed to decode a packet: %v", clientConfig, es)
				}
				return
			}
			switch p := pc.Packet.(type) {
			case *cfgpacket.StartUpdate:
				if clientConfig {
					clientErr = "StartUpdate while the client is already in config"
					return
				}
				clientConfig = true
				dec.SetState(state.Config)
				arrivals = append(arrivals, arrival{marker: "start"})
			case *cfgpacket.FinishedUpdate:
				if !clientConfig {
					clientErr = "FinishedUpdate while the client is in play"
					return
				}
				clientConfig = false
				dec.SetState(state.Play)
				arrivals = append(arrivals, arrival{marker: "finish"})
			case *packet.TabCompleteResponse:
				if clientConfig {
					clientErr = "play-only packet decoded while in config"
					return
				}
				arrivals = append(arrivals, arrival{tag: p.TransactionID, play: true})
			case *packet.KeepAlive:
				arrivals = append(arrivals, arrival{tag: int(p.RandomID), config: clientConfig})
			default:
				clientErr = fmt.Sprintf("client in state config=%v cannot make sense of packet id %#x (%T): a packet was written in the wrong protocol state", clientConfig, int(pc.PacketID), pc.Packet)
				return
			}
		}
	})

	why := s.RunUntil(5*time.Second, func() bool { return writersDone == nW && changerDone })
	if why == "steps" {
		r.Inconclusive("step budget exhausted")
		return
	}
	if writersDone != nW || !changerDone {
		r.Fail("stuck", "stuck", "writers %d/%d changer %v; lock waiters %+v parked %+v", writersDone, nW, changerDone, s.LockWaiters(), s.Parked())
		return
	}
	// drain
	s.RunUntil(time.Second, func() bool { return clientDone })
	closed := netmc.Closed(conn)

	if variant == "overflow" {
		// the 1025th held packet must fail and close the connection (not a silent drop)
		okWrites := 0
		for _, w := range writes {
			if w.err == nil {
				okWrites++
			}
		}
		if okWrites > 1024 {
			r.Fail("queue-unbounded", "overflow", "%d play packets were accepted while in config (cap is 1024 per the property)", okWrites)
			return
		}
		if !closed {
			r.Fail("overflow-not-closed", "overflow", "queue overflow did not close the connection (accepted %d)", okWrites)
			return
		}
		if okWrites < 1024 {
			r.Fail("queue-too-small", "overflow", "connection closed after only %d held packets", okWrites)
			return
		}
		r.Probe("queue_overflow_closed")
		r.Res.Sample = map[string]any{"variant": variant, "accepted": okWrites}
		return
	}
	// Attribution of state-change races: does some write of the given kind overlap (in
	// serialized sequence numbers) with an enter/leave step sequence of the changer?
	overlaps := func() bool {
		for _, w := range writes {
			ret := w.ret
			if ret == 0 {
				ret = 1 << 60
			}
			for _, iv := range chgIv {
				if w.inv < iv[1] && ret > iv[0] {
					return true
				}
			}
		}
		return false
	}
	raceSig := variant + ":unattributed"
	if variant == "racy" && overlaps() {
		// some write was in flight while the changer was inside its (non-atomic) enter or
		// leave step sequence: the known proxy-level state-change race, see DESIGN.md
		raceSig = "racy:write-in-flight-during-state-change"
	}
	if clientErr != "" {
		r.Fail("client-cannot-decode", raceSig, "%s (variant %s)", clientErr, variant)
		return
	}
	var werr error
	for _, w := range writes {
		if w.err != nil && werr == nil {
			werr = w.err
		}
	}
	if closed || werr != nil {
		r.Fail("connection-closed", raceSig, "the connection was closed / a write failed (%v) although no fault was injected and the queue bound was not reached (variant %s)", werr, variant)
		return
	}
	// every written packet arrives exactly once; per writer in order
	seen := map[int]int{}
	pos := map[int]int{}
	for i, a := range arrivals {
		if a.marker == "" {
			seen[a.tag]++
			pos[a.tag] = i
		}
	}
	last := map[int]int{}
	for _, w := range writes {
		switch seen[w.tag] {
		case 0:
			r.Fail("packet-lost", variant, "packet tag %d (play=%v, written in config=%v, episode %d) never reached the client (variant %s)", w.tag, w.play, w.inConfig, w.episode, variant)
			return
		case 1:
		default:
			r.Fail("packet-duplicated", variant, "packet tag %d arrived %d times", w.tag, seen[w.tag])
			return
		}
		// order is per writer and per class: config-valid packets are written immediately and
		// may legitimately overtake held play packets of the same writer
		k := w.writer * 2
		if w.play {
			k++
		}
		if p, ok := last[k]; ok && pos[w.tag] < p {
			r.Fail("writer-order-broken", variant, "writer %d: tag %d (play=%v) arrived before an earlier write of the same kind by the same writer", w.writer, w.tag, w.play)
			return
		}
		last[k] = pos[w.tag]
	}
	// a play packet whose write was invoked after leave-config returned comes after every
	// play packet whose write had returned before that leave was invoked (the held ones)
	for e := range leaveRet {
		for _, late := range writes {
			if !late.play || late.inv < leaveRet[e] {
				continue
			}
			for _, held := range writes {
				if held.play && held.ret != 0 && held.ret < leaveInv[e] && pos[late.tag] < pos[held.tag] {
					r.Fail("late-before-held", variant, "play packet %d written after leave-config returned arrived before held packet %d", late.tag, held.tag)
					return
				}
			}
		}
	}
	r.State(fmt.Sprintf("%s w%d n%d ep%d", variant, nW, perW, nEpisodes))
	r.Res.Sample = map[string]any{"variant": variant, "writers": nW, "writes": len(writes), "episodes": nEpisodes, "arrivals": len(arrivals), "protocol": int(prot)}
}
