package worlds

import (
	"context"
	"encoding/json"
	"fmt"
	"strings"
	"time"

	"github.com/anishathalye/porcupine"
	liteconfig "go.minekube.com/gate/pkg/edition/java/lite/config"
	"go.minekube.com/gate/pkg/gate"
	gconfig "go.minekube.com/gate/pkg/gate/config"
	pb "go.minekube.com/gate/pkg/internal/api/gen/minekube/gate/v1"
	"go.minekube.com/gate/pkg/util/configutil"
	"go.minekube.com/gate/pkg/zzverif/simrt"
)

// C35 — live config changes are atomic, validated and versioned by content.
//
// A real gate.Gate (Java proxy in Lite mode). 2-5 goroutines call ApplyLiveConfig,
// ApplyLiveConfigIfVersion (fresh / stale versions obtained from earlier snapshots) and
// ConfigSnapshot with candidates that are valid route-only changes, unchanged, invalid or
// unsupported (other settings changed). The recorded invoke/return history (serialized
// sequence numbers) is checked for linearizability with porcupine against a sequential
// model: state = index of the published route set; apply succeeds iff valid and differing
// only in Lite routes (and the expected version is current); rejected operations leave the
// state unchanged; every snapshot equals one complete published state; versions are a
// one-to-one function of content. Unknown (timeout) is inconclusive and never reported.
func init() {
	Register(&Scenario{Prop: "C35", Desc: "live config: linearizable, validated, versioned by content", Run: runC35,
		Quick: 400, Thorough: 60000,
		Real:  "gate.Gate.ApplyLiveConfig / ApplyLiveConfigIfVersion / ConfigSnapshot, Proxy.ApplyLiveConfig (instrumented locks, atomics)",
		Model: "caller actors; porcupine linearizability check against a sequential model (histories <= 40 operations)"})
}

type c35in struct {
	kind  string // apply, cas, api (the API handler's conditional apply with a merge patch), snapshot
	cand  int    // candidate id: 0..3 route sets, -1 invalid, -2 unsupported
	verOf int    // cas: the state the expected version was read from (-1: garbage version)
}

type c35out struct {
	code    string
	version string
	routes  int // snapshot: index of the observed route set (-1 unknown)
}

func runC35(r *Run) {
	s := r.NewSim(800000)
	routeSets := [][]liteconfig.Route{
		{{Host: []string{"a.example"}, Backend: []string{"10.0.0.1:25565"}}},
		{{Host: []string{"a.example"}, Backend: []string{"10.0.0.2:25565"}}},
		{{Host: []string{"a.example"}, Backend: []string{"10.0.0.1:25565"}}, {Host: []string{"b.example"}, Backend: []string{"10.0.0.3:25565"}}},
		{{Host: []string{"*.example"}, Backend: []string{"10.0.0.4:25565", "10.0.0.5:25565"}, CachePingTTL: configutil.Duration(3 * time.Second)}},
	}
	mk := func(id int) *gconfig.Config {
		c := gconfig.DefaultConfig
		c.Config.Lite.Enabled = true
		c.Config.OnlineMode = false
		switch {
		case id >= 0:
			c.Config.Lite.Routes = cloneRoutes(routeSets[id])
		case id == -1: // invalid: a route without backend
			c.Config.Lite.Routes = []liteconfig.Route{{Host: []string{"a.example"}}}
		case id == -2: // unsupported: something other than routes changes
			c.Config.Lite.Routes = cloneRoutes(routeSets[1])
			c.Config.Bind = "0.0.0.0:25577"
		case id == -3: // unsupported as well: a section outside the Java config changes (with a route change)
			c.Config.Lite.Routes = cloneRoutes(routeSets[2])
			c.HealthService.Enabled = true
		case id == -4: // ... or without any route change
			c.Config.Lite.Routes = cloneRoutes(routeSets[0])
			c.NoAutoReload = true
		}
		return &c
	}
	g, err := gate.New(gate.Options{Config: mk(0), EventMgr: newSimEvent()})
	if err != nil {
		r.HarnessError("gate.New: %v", err)
		return
	}
	routesIdx := func(rs []liteconfig.Route) int {
		for i, set := range routeSets {
			if fmt.Sprint(set) == fmt.Sprint(rs) {
				return i
			}
		}
		return -1
	}
	api := gate.NewConfigHandler(g, "")
	seq := int64(0)
	var history []porcupine.Operation
	versionOf := map[int]string{}  // learned: route set -> version string
	stateOfVer := map[string]int{} // and back
	_, v0, _ := g.ConfigSnapshot()
	versionOf[0], stateOfVer[v0] = v0, 0
	nG := 2 + r.W.Pick(4)
	done := 0
	verViolation := ""
	for a := 0; a < nG; a++ {
		a := a
		nOps := 1 + r.W.Pick(6)
		type plan struct {
			kind   int
			cand   int
			stale  int
			mutate bool // edit the caller's candidate in place after the call returned
		}
		plans := make([]plan, nOps)
		for i := range plans {
			plans[i] = plan{kind: []int{0, 1, 2, 3, 4, 1}[r.W.Pick(6)], mutate: r.W.Pick(3) == 0, cand: []int{0, 1, 2, 3, -1, -2, 1, 2, -3, -4}[r.W.Pick(10)], stale: r.W.Pick(3)}
		}
		s.GoNamed(fmt.Sprintf("caller%d", a), func() {
			defer func() { done++ }()
			lastVer, lastState := v0, 0
			for _, p := range plans {
				var in c35in
				var out c35out
				seq++
				call := seq
				switch p.kind {
				case 0:
					r.Op("apply")
					in = c35in{kind: "apply", cand: p.cand}
					cand := mk(p.cand)
					res := g.ApplyLiveConfig(cand)
					out = c35out{code: res.Code, version: res.Version}
					if p.mutate && len(cand.Config.Lite.Routes) > 0 && len(cand.Config.Lite.Routes[0].Backend) > 0 {
						r.Probe("candidate_edited_after_apply")
						cand.Config.Lite.Routes[0].Backend[0] = "edited.after.apply:1"
						cand.Config.Lite.Routes[0].Host[0] = "edited.example"
					}
				case 1:
					r.Op("cas")
					exp, st := lastVer, lastState
					if p.stale == 2 {
						exp, st = "deadbeef", -1
					}
					in = c35in{kind: "cas", cand: p.cand, verOf: st}
					cand := mk(p.cand)
					res := g.ApplyLiveConfigIfVersion(cand, exp)
					out = c35out{code: res.Code, version: res.Version}
					if p.mutate && len(cand.Config.Lite.Routes) > 0 && len(cand.Config.Lite.Routes[0].Backend) > 0 {
						r.Probe("candidate_edited_after_apply")
						cand.Config.Lite.Routes[0].Backend[0] = "edited.after.apply:1"
					}
				case 4:
					r.Op("api-apply")
					exp, st := lastVer, lastState
					if p.stale == 2 {
						exp, st = "deadbeef", -1
					}
					cid := p.cand
					if cid < 0 {
						cid = -cid % len(routeSets)
					}
					in = c35in{kind: "api", cand: cid, verOf: st}
					rj, _ := json.Marshal(routeSets[cid])
					resp, err := api.ApplyConfig(context.Background(), &pb.ApplyConfigRequest{IfMatch: exp,
						Input: &pb.ApplyConfigRequest_MergePatch{MergePatch: `{"config":{"lite":{"routes":` + string(rj) + `}}}`}})
					switch {
					case err == nil:
						out = c35out{code: "ok", version: resp.GetVersion()}
					case strings.Contains(err.Error(), "version does not match"):
						out = c35out{code: "precondition_failed"}
					default:
						out = c35out{code: "error:" + err.Error()}
					}
				default:
					r.Op("snapshot")
					in = c35in{kind: "snapshot"}
					snap, ver, err := g.ConfigSnapshot()
					if err != nil {
						out = c35out{code: "error"}
					} else {
						idx := routesIdx(snap.Config.Lite.Routes)
						out = c35out{code: "ok", version: ver, routes: idx}
						lastVer, lastState = ver, idx
						if idx >= 0 {
							if old, ok := versionOf[idx]; ok && old != ver {
								verViolation = fmt.Sprintf("route set %d had version %s and now %s", idx, old, ver)
							}
							if st, ok := stateOfVer[ver]; ok && st != idx {
								verViolation = fmt.Sprintf("version %s identified route set %d and now %d", ver, st, idx)
							}
							versionOf[idx], stateOfVer[ver] = ver, idx
						} else {
							verViolation = fmt.Sprintf("snapshot shows a route set that was never a complete candidate: %v", snap.Config.Lite.Routes)
						}
					}
				}
				seq++
				history = append(history, porcupine.Operation{ClientId: a, Input: in, Call: call, Output: out, Return: seq})
				simrt.Yield("c35.caller")
			}
		})
	}
	why := s.RunUntil(30*time.Second, func() bool { return done == nG })
	if why == "steps" {
		r.Inconclusive("step budget exhausted")
		return
	}
	if r.CheckDeadlock() {
		return
	}
	if done != nG {
		r.Fail("caller-stuck", "liveness", "%d/%d callers returned; parked %+v", done, nG, s.Parked())
		return
	}
	if verViolation != "" {
		r.Fail("version-not-function-of-content", "version", "%s", verViolation)
		return
	}
	model := porcupine.Model{
		Init: func() interface{} { return 0 },
		Step: func(st, input, output interface{}) (bool, interface{}) {
			state := st.(int)
			in, out := input.(c35in), output.(c35out)
			applyResult := func() (string, int) {
				switch {
				case in.cand == state:
					return "unchanged", state
				case in.cand == -1:
					return "invalid", state
				case in.cand <= -2:
					return "unsupported", state
				default:
					return "applied", in.cand
				}
			}
			switch in.kind {
			case "apply":
				code, next := applyResult()
				return out.code == code, next
			case "cas":
				if in.verOf != state {
					// expected version is not current: must be refused and report the current version
					if out.code != "precondition_failed" {
						return false, state
					}
					if v, ok := versionOf[state]; ok && out.version != v {
						return false, state
					}
					return true, state
				}
				code, next := applyResult()
				return out.code == code, next
			case "api":
				if in.verOf != state {
					return out.code == "precondition_failed", state
				}
				return out.code == "ok", in.cand
			default: // snapshot
				return out.code == "ok" && out.routes == state, state
			}
		},
	}
	if len(history) > 40 {
		history = history[:40]
	}
	switch porcupine.CheckOperationsTimeout(model, history, 20*time.Second) {
	case porcupine.Illegal:
		var hs []string
		for _, o := range history {
			hs = append(hs, fmt.Sprintf("c%d[%d,%d] %+v -> %+v", o.ClientId, o.Call, o.Return, o.Input, o.Output))
		}
		r.Fail("not-linearizable", "history", "the recorded history of live-config operations has no sequential explanation: %v", hs)
		return
	case porcupine.Unknown:
		r.Inconclusive("linearizability check timed out")
		return
	}
	// applied versions must be fresh and consistent
	for _, o := range history {
		in, out := o.Input.(c35in), o.Output.(c35out)
		if out.code == "applied" && in.cand >= 0 && out.version != "" {
			if v, ok := versionOf[in.cand]; ok && v != out.version {
				r.Fail("version-not-function-of-content", "applied", "applying route set %d returned version %s but snapshots of that content carry %s", in.cand, out.version, v)
				return
			}
		}
	}
	r.State(fmt.Sprintf("g%d ops%d", nG, len(history)))
	r.Res.Sample = map[string]any{"callers": nG, "operations": len(history), "versions_learned": len(versionOf)}
}

func cloneRoutes(rs []liteconfig.Route) []liteconfig.Route {
	out := make([]liteconfig.Route, len(rs))
	for i, r := range rs {
		out[i] = r
		out[i].Host = append(configutil.SingleOrMulti[string](nil), r.Host...)
		out[i].Backend = append(configutil.SingleOrMulti[string](nil), r.Backend...)
	}
	return out
}
