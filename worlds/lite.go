package worlds

import (
	"context"
	"fmt"
	"net"
	"strings"
	"time"

	"go.minekube.com/gate/pkg/edition/java/config"
	liteconfig "go.minekube.com/gate/pkg/edition/java/lite/config"
	"go.minekube.com/gate/pkg/edition/java/proxy"
	"go.minekube.com/gate/pkg/util/configutil"
	"go.minekube.com/gate/pkg/zzverif/mcpeer"
	"go.minekube.com/gate/pkg/zzverif/simnet"
	"go.minekube.com/gate/pkg/zzverif/simrt"
)

// liteWorld is W-lite: a real proxy in Lite mode. Backend dials go through the
// instrumenter's net.Dialer seam (simrt.DialHook).
type liteWorld struct {
	r       *Run
	s       *simrt.Sim
	p       *proxy.Proxy
	cfg     *config.Config
	seq     int
	dials   []liteDial
	backend map[string]*liteBackend // by dial address
	seg     simnet.SegMode
	nconn   int
}

type liteDial struct {
	Seq     int
	Addr    string
	By      string
	Outcome string
}

type liteBackend struct {
	Refuse          bool
	Hang            bool
	Delay           time.Duration
	FailGateWriteAt int64 // the proxy's write that crosses this stream offset fails (0: never)
	Conns           []*liteBackendConn
	OnConn          func(bc *liteBackendConn) // actor body; default: read everything
}

type liteBackendConn struct {
	Addr   string
	conn   *simnet.Conn
	Recv   []byte
	EOF    bool
	Closed bool
	Done   bool
}

func (w *liteWorld) nextSeq() int { w.seq++; return w.seq }

func newLite(r *Run, routes []liteconfig.Route, mutate func(cfg *config.Config)) *liteWorld {
	w := &liteWorld{r: r, backend: map[string]*liteBackend{}}
	w.s = r.NewSim(3_000_000)
	w.seg = r.SegChoice()
	cfg := config.DefaultConfig
	cfg.OnlineMode = false
	cfg.Lite.Enabled = true
	cfg.Lite.Routes = routes
	cfg.ConnectionTimeout = configutil.Duration(5 * time.Second) // Lite uses the Duration as is
	cfg.ReadTimeout = configutil.Duration(30 * time.Microsecond)
	cfg.Quota.Connections.Enabled = false
	cfg.Quota.Logins.Enabled = false
	cfg.PacketLimiter.PacketsPerSecond = -1
	cfg.PacketLimiter.BytesPerSecond = -1
	if mutate != nil {
		mutate(&cfg)
	}
	w.cfg = &cfg
	p, err := proxy.New(proxy.Options{Config: &cfg, EventMgr: newSimEvent()})
	if err != nil {
		r.HarnessError("proxy.New(lite): %v", err)
		r.Abort()
	}
	w.p = p
	hook := func(ctx context.Context, network, addr string) (net.Conn, error) { return w.dial(ctx, network, addr) }
	simrt.DialHook.Store(&hook)
	return w
}

func (w *liteWorld) dial(ctx context.Context, network, addr string) (net.Conn, error) {
	rec := liteDial{Seq: w.nextSeq(), Addr: addr, By: simrt.CurrentGID()}
	w.r.Op("dial")
	b := w.backend[addr]
	fin := func(o string) { rec.Outcome = o; w.dials = append(w.dials, rec) }
	if b == nil || b.Refuse {
		w.r.Fault("dial_refused")
		fin("refused")
		return nil, simnet.ErrRefused
	}
	if b.Hang {
		w.r.Fault("dial_hang")
		<-ctx.Done()
		simrt.Resumed("lite.dial-hang")
		fin("hang")
		return nil, ctx.Err()
	}
	if b.Delay > 0 {
		w.r.Fault("dial_slow")
		simrt.Sleep(b.Delay, "lite.dial-delay")
		if ctx.Err() != nil {
			fin("timeout")
			return nil, ctx.Err()
		}
	}
	host, _, _ := net.SplitHostPort(addr)
	ip := net.ParseIP(host)
	if ip == nil {
		ip = net.ParseIP("10.77.0.1")
	}
	gate, be := w.r.Pipe("gate>"+addr, "be:"+addr, simnet.Options{Seg: w.seg, AddrA: simnet.TCP("10.9.9.9", 31000+len(w.dials)), AddrB: &net.TCPAddr{IP: ip, Port: 25565}})
	bc := &liteBackendConn{Addr: addr, conn: be}
	if b.FailGateWriteAt > 0 {
		w.r.Fault("backend_link_breaks_after_handshake")
		gate.FailWriteAt(b.FailGateWriteAt)
	}
	b.Conns = append(b.Conns, bc)
	fin("ok")
	simrt.Go(func() {
		defer func() { bc.Done = true }()
		if b.OnConn != nil {
			b.OnConn(bc)
			return
		}
		bc.readAll()
	})
	return gate, nil
}

func (bc *liteBackendConn) readAll() {
	buf := make([]byte, 8192)
	for {
		n, err := bc.conn.Read(buf)
		bc.Recv = append(bc.Recv, buf[:n]...)
		if err != nil {
			bc.EOF = true
			return
		}
	}
}

// liteClient is a raw client.
type liteClient struct {
	w    *liteWorld
	idx  int
	conn *simnet.Conn
	IP   string
	Port int
	Recv []byte
	EOF  bool
	Done bool
}

func (w *liteWorld) connect(ip string) *liteClient {
	w.nconn++
	c := &liteClient{w: w, idx: w.nconn, IP: ip, Port: 42000 + w.nconn}
	cl, gate := w.r.Pipe(fmt.Sprintf("lclient%d", c.idx), fmt.Sprintf("gate<lclient%d", c.idx),
		simnet.Options{Seg: w.seg, AddrA: simnet.TCP(ip, c.Port), AddrB: simnet.TCP("10.0.0.1", 25565)})
	c.conn = cl
	w.s.GoNamed(fmt.Sprintf("lhandleconn%d", c.idx), func() { w.p.HandleConn(gate) })
	return c
}

func handshakeFrame(prot int32, host string, port int, next int32) []byte {
	hs := (&mcpeer.W{}).VarInt(0).VarInt(prot).String(host).U16(uint16(port)).VarInt(next)
	return mcpeer.Frame(hs.B, -1, 0)
}

func (c *liteClient) readAll() {
	buf := make([]byte, 8192)
	for {
		n, err := c.conn.Read(buf)
		c.Recv = append(c.Recv, buf[:n]...)
		if err != nil {
			c.EOF = true
			return
		}
	}
}

func (w *liteWorld) finish() { simrt.DialHook.Store(nil) }

// refGlob is the reference glob matcher (hand-written backtracking, no regexp): '*'
// matches any sequence of characters, '?' exactly one character; case-insensitive.
// It returns every possible assignment of wildcard captures (Gate's captures must be one).
func refGlob(pattern, s string) (matched bool, captures [][]string) {
	p := []rune(strings.ToLower(pattern))
	t := []rune(strings.ToLower(s))
	var rec func(pi, ti int, caps []string)
	rec = func(pi, ti int, caps []string) {
		if len(captures) > 64 {
			return
		}
		if pi == len(p) {
			if ti == len(t) {
				matched = true
				captures = append(captures, append([]string(nil), caps...))
			}
			return
		}
		switch p[pi] {
		case '*':
			for k := ti; k <= len(t); k++ {
				rec(pi+1, k, append(caps, string(t[ti:k])))
			}
		case '?':
			if ti < len(t) {
				rec(pi+1, ti+1, append(caps, string(t[ti:ti+1])))
			}
		default:
			if ti < len(t) && t[ti] == p[pi] {
				rec(pi+1, ti+1, caps)
			}
		}
	}
	rec(0, 0, nil)
	return
}

// refCleanHost removes Forge / TCPShield suffixes and surrounding dots.
func refCleanHost(h string) string {
	if i := strings.Index(h, "\x00"); i >= 0 {
		h = h[:i]
	}
	if i := strings.Index(h, "///"); i >= 0 {
		h = h[:i]
	}
	return strings.Trim(h, ".")
}
