package e2

import (
	"bytes"
	"context"
	"fmt"
	"io"
	"net"
	"testing"
	"testing/synctest"
	"time"

	"go.minekube.com/gate/pkg/edition/java/config"
	"go.minekube.com/gate/pkg/edition/java/proto/codec"
	"go.minekube.com/gate/pkg/edition/java/proto/packet"
	"go.minekube.com/gate/pkg/edition/java/proto/state"
	"go.minekube.com/gate/pkg/edition/java/proto/util"
	"go.minekube.com/gate/pkg/edition/java/proxy"
	"go.minekube.com/gate/pkg/gate/proto"
	"github.com/go-logr/logr"
	"github.com/robinbraemer/event"
)

type dialInfo struct {
	name string
	addr net.Addr
	dial func(ctx context.Context, p proxy.Player) (net.Conn, error)
}

func (d *dialInfo) Name() string   { return d.name }
func (d *dialInfo) Addr() net.Addr { return d.addr }
func (d *dialInfo) Dial(ctx context.Context, p proxy.Player) (net.Conn, error) {
	return d.dial(ctx, p)
}

type addr string

func (a addr) Network() string { return "tcp" }
func (a addr) String() string  { return string(a) }

func writePkt(t *testing.T, w io.Writer, dir proto.Direction, st *state.Registry, prot proto.Protocol, p proto.Packet) {
	buf := new(bytes.Buffer)
	enc := codec.NewEncoder(buf, dir, logr.Discard())
	enc.SetProtocol(prot)
	enc.SetState(st)
	if _, err := enc.WritePacket(p); err != nil {
		t.Fatalf("enc: %v", err)
	}
	if _, err := w.Write(buf.Bytes()); err != nil {
		t.Logf("write: %v", err)
	}
}

func TestBubble(t *testing.T) {
	synctest.Test(t, func(t *testing.T) {
		cfg := config.DefaultConfig
		cfg.OnlineMode = false
		cfg.Forwarding.Mode = config.NoneForwardingMode
		cfg.Servers = map[string]string{}
		cfg.Try = []string{"lobby"}
		p, err := proxy.New(proxy.Options{Config: &cfg, EventMgr: event.New()})
		if err != nil {
			t.Fatal(err)
		}
		backendGot := make(chan string, 10)
		_, err = p.Register(&dialInfo{name: "lobby", addr: addr("10.0.0.1:25565"), dial: func(ctx context.Context, pl proxy.Player) (net.Conn, error) {
			a, b := net.Pipe()
			go func() {
				dec := codec.NewDecoder(b, proto.ServerBound, logr.Discard())
				pc, err := dec.Decode()
				backendGot <- fmt.Sprintf("%T %v", pc.Packet, err)
				hs := pc.Packet.(*packet.Handshake)
				dec.SetProtocol(proto.Protocol(hs.ProtocolVersion))
				dec.SetState(state.Login)
				pc, err = dec.Decode()
				backendGot <- fmt.Sprintf("%T %v", pc.Packet, err)
				time.Sleep(time.Second)
				b.Close()
			}()
			return a, nil
		}})
		if err != nil {
			t.Fatal(err)
		}
		c, s := net.Pipe()
		done := make(chan struct{})
		go func() { p.HandleConn(s); close(done) }()
		prot := proto.Protocol(763)
		writePkt(t, c, proto.ServerBound, state.Handshake, prot, &packet.Handshake{ProtocolVersion: 763, ServerAddress: "example.com", Port: 25565, NextStatus: 2})
		writePkt(t, c, proto.ServerBound, state.Login, prot, &packet.ServerLogin{Username: "Alice"})
		dec := codec.NewDecoder(c, proto.ClientBound, logr.Discard())
		dec.SetProtocol(prot)
		dec.SetState(state.Login)
		for i := 0; i < 2; i++ {
			pc, err := dec.Decode()
			if err != nil {
				t.Logf("client decode err %v", err)
				break
			}
			t.Logf("client got %T %+v", pc.Packet, pc.Packet)
			if sc, ok := pc.Packet.(*packet.SetCompression); ok {
				dec.SetCompressionThreshold(sc.Threshold)
			}
		}
		t.Log(<-backendGot)
		t.Log(<-backendGot)
		t.Logf("players=%d now=%v", p.PlayerCount(), time.Now())
		_ = util.WriteVarInt
		time.Sleep(40 * time.Second)
		t.Logf("after sleep players=%d now=%v", p.PlayerCount(), time.Now())
		c.Close()
		<-done
		t.Logf("closed players=%d", p.PlayerCount())
	})
}
