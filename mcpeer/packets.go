package mcpeer

import (
	"errors"
	"fmt"
)

// Independent decoders for the packets the proxy builds itself (C07). Field layouts follow
// the vanilla protocol per version; nothing here imports gate.

const (
	P1_7_6  = 5
	P1_8    = 47
	P1_12_2 = 340
	P1_13   = 393
	P1_16   = 735
	P1_19   = 759
	P1_19_1 = 760
	P1_19_3 = 761
	P1_20_2 = 764
	P1_20_3 = 765
	P1_20_5 = 766
	P1_21_2 = 768
)

func done(b *Buf, what string) error {
	if b.Err != nil {
		return fmt.Errorf("%s: %w", what, b.Err)
	}
	if b.Len() != 0 {
		return fmt.Errorf("%s: %d trailing bytes after the last field", what, b.Len())
	}
	return nil
}

type Handshake struct {
	Protocol int32
	Address  string
	Port     uint16
	Next     int32
}

func DecodeHandshake(body []byte) (h Handshake, err error) {
	b := NewBuf(body)
	h.Protocol, h.Address, h.Port, h.Next = b.VarInt(), b.String(), b.U16(), b.VarInt()
	return h, done(b, "handshake")
}

type LoginStart struct {
	Name    string
	HasKey  bool
	HasUUID bool
	UUID    [16]byte
}

func DecodeLoginStart(body []byte, protocol int) (l LoginStart, err error) {
	b := NewBuf(body)
	l.Name = b.String()
	if protocol >= P1_19 {
		if protocol < P1_19_3 {
			l.HasKey = b.Bool()
			if l.HasKey {
				b.I64()
				b.ByteArray()
				b.ByteArray()
			}
		}
		if protocol >= P1_20_2 {
			l.HasUUID, l.UUID = true, b.UUID()
		} else if protocol >= P1_19_1 {
			l.HasUUID = b.Bool()
			if l.HasUUID {
				l.UUID = b.UUID()
			}
		}
	}
	return l, done(b, "login start")
}

type LoginSuccess struct {
	UUID       [16]byte
	UUIDString string // before 1.16
	Name       string
	Properties int
	Strict     bool
}

func DecodeLoginSuccess(body []byte, protocol int) (l LoginSuccess, err error) {
	b := NewBuf(body)
	switch {
	case protocol >= P1_16:
		// 1.16-1.18.2 send four ints, 1.19+ two longs: the same 16 bytes
		l.UUID = b.UUID()
	default:
		l.UUIDString = b.String()
	}
	l.Name = b.String()
	if protocol >= P1_19 {
		n := int(b.VarInt())
		if n < 0 || n > 64 {
			return l, fmt.Errorf("login success: property count %d", n)
		}
		l.Properties = n
		for i := 0; i < n; i++ {
			_, _ = b.String(), b.String()
			if b.Bool() {
				_ = b.String()
			}
		}
	}
	if protocol >= P1_20_5 && protocol < P1_21_2 {
		l.Strict = b.Bool()
	}
	return l, done(b, "login success")
}

func DecodeSetCompression(body []byte) (int32, error) {
	b := NewBuf(body)
	t := b.VarInt()
	return t, done(b, "set compression")
}

type EncryptionRequest struct {
	ServerID    string
	PublicKey   []byte
	VerifyToken []byte
	ShouldAuth  bool
}

func (b *Buf) bytes17() []byte {
	n := int(b.U16())
	return b.Bytes(n)
}

func DecodeEncryptionRequest(body []byte, protocol int) (e EncryptionRequest, err error) {
	b := NewBuf(body)
	e.ServerID = b.String()
	if protocol < P1_8 {
		e.PublicKey, e.VerifyToken = b.bytes17(), b.bytes17()
	} else {
		e.PublicKey, e.VerifyToken = b.ByteArray(), b.ByteArray()
	}
	if protocol >= P1_20_5 {
		e.ShouldAuth = b.Bool()
	}
	return e, done(b, "encryption request")
}

// DecodeDisconnect returns the reason: the JSON string (login state, and every state
// before 1.20.3) or the raw network NBT (config/play from 1.20.3).
func DecodeDisconnect(body []byte, protocol int, login bool) (json string, nbt []byte, err error) {
	b := NewBuf(body)
	if login || protocol < P1_20_3 {
		json = b.String()
	} else {
		nbt = b.SkipNBT()
		if nbt == nil && b.Err == nil {
			return "", nil, errors.New("disconnect: empty NBT reason")
		}
	}
	return json, nbt, done(b, "disconnect")
}

func DecodeKeepAlive(body []byte, protocol int) (int64, error) {
	b := NewBuf(body)
	var id int64
	switch {
	case protocol >= P1_12_2:
		id = b.I64()
	case protocol >= P1_8:
		id = int64(b.VarInt())
	default:
		id = int64(b.I32())
	}
	return id, done(b, "keep alive")
}

func DecodePluginMessage(body []byte, protocol int) (channel string, data []byte, err error) {
	b := NewBuf(body)
	channel = b.String()
	if protocol < P1_8 {
		data = b.bytes17()
	} else {
		data = b.Rest()
	}
	return channel, data, done(b, "plugin message")
}

func DecodeTransfer(body []byte) (host string, port int32, err error) {
	b := NewBuf(body)
	host, port = b.String(), b.VarInt()
	return host, port, done(b, "transfer")
}

func DecodeStatusResponse(body []byte) (string, error) {
	b := NewBuf(body)
	s := b.String()
	return s, done(b, "status response")
}
