// Package simrt is the serialized, tape-driven scheduler the instrumented Gate code and
// the harness actors run under. It sits on top of testing/synctest: parked goroutines
// block on bubble channels, the driver (the bubble's root goroutine) releases exactly one
// at a time and uses synctest.Wait to learn that everything is durably blocked again.
//
// Outside an active simulation every hook performs the real operation (pass-through).
//
// Race hygiene: all shared simulator state is touched only inside //go:norace functions,
// under s.mu, between runtime.RaceDisable/RaceEnable, and lives in fixed arrays (no runtime
// map, no growing append), so that in a -race build the detector sees the program's own
// happens-before edges only and the simulator itself is silent.
package simrt

import (
	"context"
	"net"
	"runtime"
	"strconv"
	"sync"
	"sync/atomic"
	"testing/synctest"
	"time"
)

type waitKind uint8

const (
	wRun   waitKind = iota // runnable as soon as picked
	wLock                  // waiting for some Unlock
	wCond                  // waiting for Signal/Broadcast on g.on
	wOnce                  // waiting for a running Once on g.on
	wBlock                 // waiting for g.pred() (sim-aware blocking, e.g. simnet)
)

const (
	maxG     = 4096
	tabSize  = 8192 // open addressing, power of two
	ringSize = 256
)

type G struct {
	id      string
	goid    uint64
	wake    chan struct{}
	site    string
	wk      waitKind
	on      any
	pred    func() bool
	wakeAt  time.Time
	nspawn  int
	locks   int
	parked  bool
	dead    bool
	root    bool
	ext     bool
	since   int // step at which it started waiting (for lock-wait diagnostics)
	prio    int
	lockTry func() bool
}

func (g *G) ID() string { return g.id }

type onceState struct {
	o       *sync.Once
	running bool
	done    bool
}

// Strategy selects how the next goroutine is chosen.
type Strategy int

const (
	StratRandom Strategy = iota // uniform among candidates
	StratSticky                 // keep running the same goroutine with probability 7/8
	StratPCT                    // fixed random priorities with a few change points
	StratFIFO                   // lowest id first with rare deviations (delay-bounded)
	NumStrategies
)

type Config struct {
	Sched    *Tape
	Aux      *Tape // map-iteration order and other in-program choices
	Strategy Strategy
	MaxSteps int
	Trace    bool // keep full trace (replay output)
}

type TraceEntry struct {
	Step int
	G    string
	Site string
}

type Sim struct {
	mu     sync.Mutex
	closed bool
	tab    [tabSize]*G
	gs     [maxG]*G
	ng     int
	onces  [512]onceState
	nonce  int

	cfg      Config
	Steps    int
	hash     uint64
	ring     [ringSize]TraceEntry
	full     []TraceEntry
	last     *G
	nExt     int
	Adopted  int
	Hazards  int
	Idle     int
	Clock    time.Duration // simulated time spent in idle advances
	start    time.Time
	pctLeft  int
	Picks    int // scheduling decisions with >1 candidate
	NonDflt  int // decisions where a non-zero choice was taken
	MaxCands int
	kick chan struct{}
	// OnStep, if set, is called by RunUntil after every step while all simulated
	// goroutines are blocked (invariant evaluation).
	OnStep func()
	// YieldAfterUnlock makes every mutex release by a simulated goroutine a scheduling
	// point as well (off by default: acquisitions are the scheduling points). Set by a
	// scenario before it starts goroutines.
	YieldAfterUnlock bool
	// Progress is bumped on every step (real-time watchdog).
	Progress atomic.Int64
}

var active atomic.Pointer[Sim]

// GlobalProgress is bumped on every scheduling step of any simulation (watchdog).
var GlobalProgress atomic.Int64

// Active reports whether a simulation is running.
func Active() bool { return active.Load() != nil }

//go:norace
func goid() uint64 {
	var buf [40]byte
	n := runtime.Stack(buf[:], false)
	// "goroutine 123 ["
	var v uint64
	for i := 10; i < n; i++ {
		c := buf[i]
		if c < '0' || c > '9' {
			break
		}
		v = v*10 + uint64(c-'0')
	}
	return v
}

//go:norace
func (s *Sim) lookup(id uint64) *G {
	i := (id * 0x9E3779B97F4A7C15) >> 51 & (tabSize - 1)
	for {
		g := s.tab[i]
		if g == nil {
			return nil
		}
		if g.goid == id && !g.dead {
			return g
		}
		i = (i + 1) & (tabSize - 1)
	}
}

//go:norace
func (s *Sim) insert(g *G) {
	if s.ng >= maxG {
		panic("simrt: too many goroutines in one run")
	}
	s.gs[s.ng] = g
	s.ng++
	i := (g.goid * 0x9E3779B97F4A7C15) >> 51 & (tabSize - 1)
	for {
		if s.tab[i] == nil || s.tab[i].dead {
			s.tab[i] = g
			return
		}
		i = (i + 1) & (tabSize - 1)
	}
}

// cur returns the simulated goroutine of the caller, adopting unknown goroutines. It
// returns nil outside a simulation and for the driver.
//
//go:norace
func cur(site string) (*Sim, *G) {
	s := active.Load()
	if s == nil {
		return nil, nil
	}
	raceDisable()
	id := goid()
	s.mu.Lock()
	if s.closed {
		s.mu.Unlock()
		raceEnable()
		return nil, nil
	}
	g := s.lookup(id)
	if g == nil {
		s.nExt++
		s.Adopted++
		g = &G{id: "ext:" + site + "#" + strconv.Itoa(s.nExt), goid: id, wake: make(chan struct{}), ext: true}
		s.insert(g)
	}
	s.mu.Unlock()
	raceEnable()
	if g.root {
		return nil, nil
	}
	return s, g
}

//go:norace
func (s *Sim) park(g *G, site string, wk waitKind) {
	raceDisable()
	s.mu.Lock()
	if s.closed {
		s.mu.Unlock()
		raceEnable()
		return
	}
	g.site, g.wk = site, wk
	g.since = s.Steps
	g.parked = true
	s.mu.Unlock()
	select { // wake the driver if it is advancing the clock: time must not run past runnable work
	case s.kick <- struct{}{}:
	default:
	}
	<-g.wake
	s.mu.Lock()
	closed := s.closed
	s.mu.Unlock()
	raceEnable()
	if closed {
		// The simulation is over: a simulated goroutine never continues on its own (it
		// could block on a real mutex leaked by the program, which synctest cannot see as
		// durable). Its deferred calls run; hooks are pass-through from now on.
		runtime.Goexit()
	}
}

// Yield is a pure scheduling point.
//
//go:norace
func Yield(site string) {
	if s, g := cur(site); s != nil {
		s.park(g, site, wRun)
	}
}

// Resumed is called right after a real blocking operation returned, so that the woken
// goroutine parks before it touches any state.
//
//go:norace
func Resumed(site string) {
	if s, g := cur(site); s != nil {
		s.park(g, site, wRun)
	}
}

// Block parks the caller until pred() holds (evaluated by the scheduler while everything
// is blocked) or until wakeAt (zero = never) has passed on the simulated clock. Outside a
// simulation it returns false and the caller must block by itself.
//
//go:norace
func Block(site string, pred func() bool, wakeAt time.Time) bool {
	s, g := cur(site)
	if s == nil {
		return false
	}
	g.pred, g.wakeAt = pred, wakeAt
	s.park(g, site, wBlock)
	g.pred = nil
	return true
}

// Lock emulates a blocking acquisition with try.
//
//go:norace
func Lock(try func() bool, lock func(), site string) {
	s, g := cur(site)
	if s == nil {
		if rs := active.Load(); rs != nil && rs.callerIsRoot() {
			// The driver must never block on a real mutex (a parked simulated goroutine
			// may hold it): fail the API call instead; DriverCall recovers this.
			if !try() {
				panic(DriverWouldBlock{Site: site})
			}
			return
		}
		if cs := closedSim.Load(); cs != nil && (cs.wasMember() || cs.isStranger()) {
			// after the simulation ended: never wait for a real mutex (a goroutine that was
			// ended while parked inside a critical section may have left it locked); this
			// includes goroutines that were spawned only after the end
			if !try() {
				runtime.Goexit()
			}
			return
		}
		lock()
		return
	}
	s.park(g, site, wRun)
	for !try() {
		if active.Load() != s || s.isClosed() {
			runtime.Goexit()
		}
		g.lockTry = try
		s.park(g, site, wLock)
	}
	g.lockTry = nil
	g.locks++
}

// closedSim is the most recently closed simulation (until the next New).
var closedSim atomic.Pointer[Sim]

//go:norace
func (s *Sim) wasMember() bool {
	raceDisable()
	id := goid()
	s.mu.Lock()
	g := s.lookup(id)
	r := g != nil && !g.root
	s.mu.Unlock()
	raceEnable()
	return r
}

// isStranger reports whether the calling goroutine was never registered with this
// (closed) simulation: a goroutine spawned by a member after the end of the run.
//
//go:norace
func (s *Sim) isStranger() bool {
	raceDisable()
	id := goid()
	s.mu.Lock()
	g := s.lookup(id)
	closed := s.closed
	s.mu.Unlock()
	raceEnable()
	return g == nil && closed
}

// DriverWouldBlock is the panic value raised when the driver goroutine would have to wait
// for a lock held by a parked simulated goroutine.
type DriverWouldBlock struct{ Site string }

// DriverCall runs fn on the driver; it returns false if fn would have blocked on a lock
// (fn must only take locks with deferred or immediately following unlocks).
func DriverCall(fn func()) (ok bool) {
	defer func() {
		if e := recover(); e != nil {
			if _, is := e.(DriverWouldBlock); is {
				ok = false
				return
			}
			panic(e)
		}
	}()
	fn()
	return true
}

//go:norace
func (s *Sim) callerIsRoot() bool {
	raceDisable()
	id := goid()
	s.mu.Lock()
	g := s.lookup(id)
	r := g != nil && g.root && !s.closed
	s.mu.Unlock()
	raceEnable()
	return r
}

//go:norace
func (s *Sim) isClosed() bool {
	raceDisable()
	s.mu.Lock()
	c := s.closed
	s.mu.Unlock()
	raceEnable()
	return c
}

//go:norace
func Unlock(unlock func(), site string) {
	unlock()
	s := active.Load()
	if s == nil {
		return
	}
	raceDisable()
	id := goid()
	var yg *G
	s.mu.Lock()
	if !s.closed {
		g := s.lookup(id)
		if g != nil && g.locks > 0 {
			g.locks--
		}
		for i := 0; i < s.ng; i++ {
			if w := s.gs[i]; w.parked && w.wk == wLock {
				w.wk = wRun
			}
		}
		if s.YieldAfterUnlock && g != nil && !g.root {
			yg = g
		}
	}
	s.mu.Unlock()
	raceEnable()
	if yg != nil {
		// a scheduling point right after the release: what follows a critical section
		// (an atomic update of a value looked up under the lock, say) can be overtaken
		s.park(yg, site, wRun)
	}
}

type tryLocker interface{ TryLock() bool }

func LockLocker(l sync.Locker, site string) {
	if tl, ok := l.(tryLocker); ok {
		Lock(tl.TryLock, l.Lock, site)
		return
	}
	l.Lock()
}
func UnlockLocker(l sync.Locker, site string) { Unlock(l.Unlock, site) }

//go:norace
func (s *Sim) onceFor(o *sync.Once) *onceState {
	for i := 0; i < s.nonce; i++ {
		if s.onces[i].o == o {
			return &s.onces[i]
		}
	}
	if s.nonce >= len(s.onces) {
		panic("simrt: too many sync.Once values in one run")
	}
	s.onces[s.nonce].o = o
	s.nonce++
	return &s.onces[s.nonce-1]
}

//go:norace
func (s *Sim) onceBusy(o *sync.Once) bool {
	raceDisable()
	s.mu.Lock()
	busy := false
	for i := 0; i < s.nonce; i++ {
		if s.onces[i].o == o {
			busy = s.onces[i].running && !s.onces[i].done
		}
	}
	s.mu.Unlock()
	raceEnable()
	return busy
}

// OnceDo emulates sync.Once.Do so that a goroutine parked inside f never blocks another
// one on the real Once (which synctest could not see as durable).
//
//go:norace
func OnceDo(o *sync.Once, f func(), site string) {
	s, g := cur(site)
	if s == nil {
		if cs := closedSim.Load(); cs != nil && cs.wasMember() && cs.onceBusy(o) {
			runtime.Goexit() // somebody is (or died) inside this Once: never wait for it
		}
		o.Do(f)
		return
	}
	s.park(g, site, wRun)
	for {
		raceDisable()
		s.mu.Lock()
		if s.closed {
			busy := s.onceFor(o).running && !s.onceFor(o).done
			s.mu.Unlock()
			raceEnable()
			if busy {
				runtime.Goexit()
			}
			o.Do(f)
			return
		}
		st := s.onceFor(o)
		if st.done {
			s.mu.Unlock()
			raceEnable()
			o.Do(func() {}) // real Once provides the happens-before edge
			return
		}
		if !st.running {
			st.running = true
			s.mu.Unlock()
			raceEnable()
			ran := false
			o.Do(func() { ran = true; f() })
			_ = ran
			raceDisable()
			s.mu.Lock()
			st = s.onceFor(o)
			st.done = true
			for i := 0; i < s.ng; i++ {
				if w := s.gs[i]; w.parked && w.wk == wOnce && w.on == any(o) {
					w.wk = wRun
				}
			}
			s.mu.Unlock()
			raceEnable()
			return
		}
		s.mu.Unlock()
		raceEnable()
		g.on = o
		s.park(g, site, wOnce)
	}
}

// CondWait emulates sync.Cond.Wait.
//
//go:norace
func CondWait(c *sync.Cond, site string) {
	s, g := cur(site)
	if s == nil {
		c.Wait()
		return
	}
	g.on = c
	// Register as waiter before releasing the lock (no lost wake-up): mark first.
	raceDisable()
	s.mu.Lock()
	g.wk = wCond
	s.mu.Unlock()
	raceEnable()
	UnlockLocker(c.L, site)
	s.parkKeep(g, site)
	LockLocker(c.L, site)
}

// parkKeep parks with the wait kind already set (it may have been flipped to wRun by a
// Signal between registration and parking).
//
//go:norace
func (s *Sim) parkKeep(g *G, site string) {
	raceDisable()
	s.mu.Lock()
	if s.closed {
		s.mu.Unlock()
		raceEnable()
		return
	}
	g.site = site
	g.since = s.Steps
	g.parked = true
	s.mu.Unlock()
	select { // wake the driver if it is advancing the clock: time must not run past runnable work
	case s.kick <- struct{}{}:
	default:
	}
	<-g.wake
	s.mu.Lock()
	closed := s.closed
	s.mu.Unlock()
	raceEnable()
	if closed {
		runtime.Goexit()
	}
}

//go:norace
func condWake(c *sync.Cond, all bool) {
	s := active.Load()
	if s == nil {
		return
	}
	raceDisable()
	s.mu.Lock()
	// lowest id first for Signal; deterministic
	var best *G
	for i := 0; i < s.ng; i++ {
		w := s.gs[i]
		if w.dead || w.wk != wCond || w.on != any(c) {
			continue
		}
		if all {
			w.wk = wRun
		} else if best == nil || w.id < best.id {
			best = w
		}
	}
	if best != nil {
		best.wk = wRun
	}
	s.mu.Unlock()
	raceEnable()
}

func CondSignal(c *sync.Cond, site string)    { c.Signal(); condWake(c, false) }
func CondBroadcast(c *sync.Cond, site string) { c.Broadcast(); condWake(c, true) }

func WGWait(wait func(), site string)    { wait(); Resumed(site) }
func Sleep(d time.Duration, site string) { time.Sleep(d); Resumed(site) }
func Recv[T any](ch <-chan T, site string) T {
	v := <-ch
	Resumed(site)
	return v
}
func Recv2[T any](ch <-chan T, site string) (T, bool) {
	v, ok := <-ch
	Resumed(site)
	return v, ok
}
func Send[T any](ch chan<- T, v T, site string) { ch <- v; Resumed(site) }

// Token carries the structural id from a go statement to the new goroutine.
type Token struct {
	id string
	s  *Sim
}

//go:norace
func Spawn() Token {
	s := active.Load()
	if s == nil {
		return Token{}
	}
	raceDisable()
	id := goid()
	s.mu.Lock()
	if s.closed {
		s.mu.Unlock()
		raceEnable()
		return Token{}
	}
	g := s.lookup(id)
	if g == nil {
		s.nExt++
		s.Adopted++
		g = &G{id: "ext:spawn#" + strconv.Itoa(s.nExt), goid: id, wake: make(chan struct{}), ext: true}
		s.insert(g)
	}
	g.nspawn++
	t := Token{id: g.id + "." + strconv.Itoa(g.nspawn), s: s}
	s.mu.Unlock()
	raceEnable()
	return t
}

//go:norace
func Start(t Token) {
	s := t.s
	if s == nil || active.Load() != s {
		return
	}
	raceDisable()
	g := &G{id: t.id, goid: goid(), wake: make(chan struct{})}
	s.mu.Lock()
	if s.closed {
		s.mu.Unlock()
		raceEnable()
		return
	}
	s.insert(g)
	s.mu.Unlock()
	raceEnable()
	s.park(g, "start", wRun)
}

//go:norace
func Exit() {
	s := active.Load()
	if s == nil {
		return
	}
	raceDisable()
	id := goid()
	s.mu.Lock()
	if g := s.lookup(id); g != nil {
		g.dead = true
	}
	s.mu.Unlock()
	raceEnable()
}

// Go starts fn as a simulated goroutine with a structural id (used by the instrumented go
// statements via Spawn/Start and by harness actors).
func Go(fn func()) {
	t := Spawn()
	go func() {
		Start(t)
		defer Exit()
		fn()
	}()
}

// GoNamed starts an actor with a chosen id (must be unique within the run).
//
//go:norace
func (s *Sim) GoNamed(name string, fn func()) {
	t := Token{id: "a:" + name, s: s}
	go func() {
		Start(t)
		defer Exit()
		fn()
	}()
}

// DialContext is the seam for (*net.Dialer).DialContext in instrumented packages.
var DialHook atomic.Pointer[func(ctx context.Context, network, addr string) (net.Conn, error)]

func DialContext(real func(ctx context.Context, network, addr string) (net.Conn, error), ctx context.Context, network, addr string) (net.Conn, error) {
	if h := DialHook.Load(); h != nil && Active() {
		return (*h)(ctx, network, addr)
	}
	return real(ctx, network, addr)
}

// ---- driver side ----

// New starts a simulation; the caller becomes the driver. Must be called inside a
// synctest bubble.
//
//go:norace
func New(cfg Config) *Sim {
	s := &Sim{cfg: cfg, hash: 1469598103934665603, start: time.Now(), kick: make(chan struct{}, 1)}
	if cfg.Sched == nil {
		s.cfg.Sched = ReplayTape(nil)
	}
	if s.cfg.MaxSteps == 0 {
		s.cfg.MaxSteps = 200000
	}
	s.insert(&G{id: "r", goid: goid(), root: true})
	active.Store(s)
	return s
}

// Close ends the simulation: hooks become pass-through and every parked goroutine is released.
//
//go:norace
func (s *Sim) Close() {
	raceDisable()
	s.mu.Lock()
	if s.closed {
		s.mu.Unlock()
		raceEnable()
		return
	}
	s.closed = true
	for i := 0; i < s.ng; i++ {
		g := s.gs[i]
		if g.parked {
			g.parked = false
			close(g.wake)
		}
	}
	s.mu.Unlock()
	raceEnable()
	closedSim.Store(s)
	active.CompareAndSwap(s, nil)
}

//go:norace
func (s *Sim) mix(str string) {
	h := s.hash
	for i := 0; i < len(str); i++ {
		h ^= uint64(str[i])
		h *= 1099511628211
	}
	h ^= 0xff
	h *= 1099511628211
	s.hash = h
}

// Note mixes a harness-level observation into the run hash (determinism self-test).
//
//go:norace
func (s *Sim) Note(str string) { s.mix(str) }

func (s *Sim) Hash() uint64 { return s.hash }

// NoLocksHeld reports whether no simulated goroutine holds an emulated lock, i.e. whether
// the driver may call into Gate's API without risking to block on a real mutex.
//
//go:norace
func (s *Sim) NoLocksHeld() bool {
	for i := 0; i < s.ng; i++ {
		if g := s.gs[i]; !g.dead && g.locks > 0 {
			return false
		}
	}
	return true
}

type StepResult int

const (
	Stepped   StepResult = iota
	Quiescent            // nothing runnable now
	OutOfSteps
)

// Step performs one scheduling decision.
//
//go:norace
func (s *Sim) Step() StepResult {
	if s.Steps >= s.cfg.MaxSteps {
		return OutOfSteps
	}
	synctest.Wait()
	raceDisable()
	defer raceEnable()
	var cands [maxG]*G
	n := 0
	now := time.Now()
	for i := 0; i < s.ng; i++ {
		g := s.gs[i]
		if g.dead || !g.parked {
			continue
		}
		switch g.wk {
		case wRun:
		case wBlock:
			if !(g.pred != nil && g.pred()) && !(!g.wakeAt.IsZero() && !now.Before(g.wakeAt)) {
				continue
			}
		default:
			continue
		}
		// insertion sort by id
		j := n
		for j > 0 && cands[j-1].id > g.id {
			cands[j] = cands[j-1]
			j--
		}
		cands[j] = g
		n++
	}
	if n == 0 {
		return Quiescent
	}
	if n > s.MaxCands {
		s.MaxCands = n
	}
	k := 0
	t := s.cfg.Sched
	switch s.cfg.Strategy {
	case StratSticky:
		idx := -1
		for i := 0; i < n; i++ {
			if cands[i] == s.last {
				idx = i
			}
		}
		if idx >= 0 && n > 1 {
			if t.Pick(8) != 7 {
				k = idx
			} else {
				k = t.Pick(n)
			}
		} else {
			k = t.Pick(n)
		}
	case StratFIFO:
		if n > 1 && t.Pick(16) == 15 {
			k = t.Pick(n)
		}
	case StratPCT:
		// highest priority runs; priorities assigned lazily from the tape; occasionally the
		// running goroutine's priority is dropped (change point).
		best := -1
		for i := 0; i < n; i++ {
			if cands[i].prio == 0 {
				cands[i].prio = 1 + t.Pick(1<<20)
			}
			if best < 0 || cands[i].prio > cands[best].prio {
				best = i
			}
		}
		k = best
		if n > 1 && t.Pick(64) == 63 {
			cands[k].prio = 1 + t.Pick(1<<10) // demote
		}
	default:
		k = t.Pick(n)
	}
	if n > 1 {
		s.Picks++
		if k != 0 {
			s.NonDflt++
		}
	}
	g := cands[k]
	s.Steps++
	s.Progress.Add(1)
	GlobalProgress.Add(1)
	s.mix(g.id)
	s.mix(g.site)
	e := TraceEntry{Step: s.Steps, G: g.id, Site: g.site}
	s.ring[s.Steps%ringSize] = e
	if s.cfg.Trace {
		s.full = append(s.full, e)
	}
	s.last = g
	s.mu.Lock()
	g.parked = false
	s.mu.Unlock()
	g.wake <- struct{}{}
	return Stepped
}

// NextWake returns the earliest deadline among blocked goroutines (zero if none).
//
//go:norace
func (s *Sim) NextWake() time.Time {
	var m time.Time
	for i := 0; i < s.ng; i++ {
		g := s.gs[i]
		if g.dead || !g.parked || g.wk != wBlock || g.wakeAt.IsZero() {
			continue
		}
		if m.IsZero() || g.wakeAt.Before(m) {
			m = g.wakeAt
		}
	}
	return m
}

// Advance lets simulated time pass by at most d (less if a simulated goroutine has an
// earlier deadline). Program timers that fall due fire; the goroutines they wake park at
// their next hook.
//
//go:norace
func (s *Sim) Advance(d time.Duration) {
	synctest.Wait()
	if w := s.NextWake(); !w.IsZero() {
		if dd := time.Until(w); dd < d {
			d = dd
		}
	}
	if d <= 0 {
		d = time.Nanosecond
	}
	s.Idle++
	s.mix("T")
	select { // drain a stale kick
	case <-s.kick:
	default:
	}
	begin := time.Now()
	t := time.NewTimer(d)
	select {
	case <-t.C:
	case <-s.kick: // a program timer fired and its goroutine parked: stop advancing right there
	}
	t.Stop()
	s.Clock += time.Since(begin)
	synctest.Wait()
}

// RunUntil schedules until done() holds, the step budget is exhausted, or `horizon` of
// simulated idle time has been spent since the call. Idle advances grow geometrically
// from 1ms to 1s so long timeouts cost few steps. It returns "done", "steps" or "idle".
//
//go:norace
func (s *Sim) RunUntil(horizon time.Duration, done func() bool) string {
	begin := time.Now()
	q := time.Millisecond
	for {
		synctest.Wait()
		if s.OnStep != nil {
			s.OnStep()
		}
		if done != nil && done() {
			return "done"
		}
		switch s.Step() {
		case OutOfSteps:
			return "steps"
		case Stepped:
			q = time.Millisecond
			continue
		}
		if time.Since(begin) >= horizon {
			return "idle"
		}
		s.Advance(q)
		if q < time.Second {
			q *= 2
		}
	}
}

// Waiter describes a goroutine that is blocked at the end of a run.
type Waiter struct {
	ID   string
	Site string
	Kind string
	For  int // steps
}

// LockWaiters lists goroutines parked on an emulated lock / Once (deadlock diagnostics).
//
//go:norace
func (s *Sim) LockWaiters() []Waiter {
	var out []Waiter
	for i := 0; i < s.ng; i++ {
		g := s.gs[i]
		if g.dead || !g.parked {
			continue
		}
		switch g.wk {
		case wLock:
			// re-test: still unavailable?
			out = append(out, Waiter{g.id, g.site, "lock", s.Steps - g.since})
		case wOnce:
			out = append(out, Waiter{g.id, g.site, "once", s.Steps - g.since})
		}
	}
	return out
}

// Parked lists all parked goroutines (diagnostics).
//
//go:norace
func (s *Sim) Parked() []Waiter {
	var out []Waiter
	kinds := [...]string{"run", "lock", "cond", "once", "block"}
	for i := 0; i < s.ng; i++ {
		g := s.gs[i]
		if g.dead || !g.parked {
			continue
		}
		out = append(out, Waiter{g.id, g.site, kinds[g.wk], s.Steps - g.since})
	}
	return out
}

// Live returns the number of simulated goroutines that have not exited.
//
//go:norace
func (s *Sim) Live() int {
	n := 0
	for i := 0; i < s.ng; i++ {
		if g := s.gs[i]; !g.dead && !g.root {
			n++
		}
	}
	return n
}

// Tail returns the last n trace entries.
func (s *Sim) Tail(n int) []TraceEntry {
	if s.cfg.Trace {
		if len(s.full) > n {
			return s.full[len(s.full)-n:]
		}
		return s.full
	}
	if n > ringSize-1 {
		n = ringSize - 1
	}
	var out []TraceEntry
	for i := s.Steps - n + 1; i <= s.Steps; i++ {
		if i >= 1 {
			out = append(out, s.ring[i%ringSize])
		}
	}
	return out
}

// Current returns the sim (nil outside a simulation).
func Current() *Sim { return active.Load() }

// CurrentGID returns the structural id of the calling simulated goroutine ("" outside).
//
//go:norace
func CurrentGID() string {
	s := active.Load()
	if s == nil {
		return ""
	}
	raceDisable()
	id := goid()
	s.mu.Lock()
	g := s.lookup(id)
	s.mu.Unlock()
	raceEnable()
	if g == nil {
		return ""
	}
	return g.id
}
