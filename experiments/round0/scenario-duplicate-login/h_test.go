package h

import (
	"bytes"
	"context"
	"fmt"
	"io"
	"net"
	"os"
	"strconv"
	"testing"
	"testing/synctest"
	"time"

	"github.com/go-logr/logr"
	"github.com/robinbraemer/event"
	"go.minekube.com/gate/pkg/edition/java/config"
	"go.minekube.com/gate/pkg/edition/java/proto/codec"
	"go.minekube.com/gate/pkg/edition/java/proto/packet"
	"go.minekube.com/gate/pkg/edition/java/proto/state"
	"go.minekube.com/gate/pkg/edition/java/proxy"
	"go.minekube.com/gate/pkg/gate/proto"
	"go.minekube.com/gate/pkg/util/configutil"
	"verif.local/simrt"
)

type dialInfo struct {
	name string
	addr net.Addr
	dial func(ctx context.Context, p proxy.Player) (net.Conn, error)
}

func (d *dialInfo) Name() string   { return d.name }
func (d *dialInfo) Addr() net.Addr { return d.addr }
func (d *dialInfo) Dial(ctx context.Context, p proxy.Player) (net.Conn, error) {
	return d.dial(ctx, p)
}

type addr string

func (a addr) Network() string { return "tcp" }
func (a addr) String() string  { return string(a) }

func writePkt(w io.Writer, st *state.Registry, prot proto.Protocol, p proto.Packet) {
	buf := new(bytes.Buffer)
	enc := codec.NewEncoder(buf, proto.ServerBound, logr.Discard())
	enc.SetProtocol(prot)
	enc.SetState(st)
	if _, err := enc.WritePacket(p); err != nil {
		panic(err)
	}
	_, _ = w.Write(buf.Bytes())
	simrt.Resumed()
}

type result struct {
	count       int
	byNameA     bool
	byIDs       int
	clientB     string
	hash        uint64
	steps       int
	why         string
	adopted     int
}

func oneRun(t *testing.T, seed int64) (r result) {
	defer func() {
		if e := recover(); e != nil {
			r.why += fmt.Sprintf(" [bubble-exit: %v]", e)
		}
	}()
	synctest.Test(t, func(t *testing.T) {
		s := simrt.New(seed)
		defer s.Close()
		var conns []net.Conn
		cfg := config.DefaultConfig
		cfg.OnlineMode = false
		cfg.Forwarding.Mode = config.NoneForwardingMode
		cfg.Servers = map[string]string{}
		cfg.Try = []string{"lobby"}
		cfg.ConnectionTimeout = configutil.Duration(5 * time.Microsecond) // x1e6 bug => 5s
		cfg.ReadTimeout = configutil.Duration(30 * time.Microsecond)
		p, err := proxy.New(proxy.Options{Config: &cfg, EventMgr: event.New()})
		if err != nil {
			t.Fatal(err)
		}
		_, err = p.Register(&dialInfo{name: "lobby", addr: addr("10.0.0.1:25565"), dial: func(ctx context.Context, pl proxy.Player) (net.Conn, error) {
			a, b := net.Pipe()
			conns = append(conns, a, b)
			simrt.Go(func() { // backend actor: swallow everything
				buf := make([]byte, 4096)
				for {
					_, err := b.Read(buf)
					simrt.Resumed()
					if err != nil {
						return
					}
				}
			})
			return a, nil
		}})
		if err != nil {
			t.Fatal(err)
		}
		prot := proto.Protocol(763)
		clientDone := make([]string, 2)
		client := func(i int, name string, delay time.Duration) {
			c, sconn := net.Pipe()
			conns = append(conns, c, sconn)
			simrt.Go(func() { p.HandleConn(sconn) })
			simrt.Go(func() {
				simrt.Sleep(delay)
				writePkt(c, state.Handshake, prot, &packet.Handshake{ProtocolVersion: 763, ServerAddress: "example.com", Port: 25565, NextStatus: 2})
				writePkt(c, state.Login, prot, &packet.ServerLogin{Username: name})
				dec := codec.NewDecoder(c, proto.ClientBound, logr.Discard())
				dec.SetProtocol(prot)
				dec.SetState(state.Login)
				for {
					pc, err := dec.Decode()
					simrt.Resumed()
					if err != nil {
						clientDone[i] += "err;"
						return
					}
					clientDone[i] += fmt.Sprintf("%T;", pc.Packet)
					if sc, ok := pc.Packet.(*packet.SetCompression); ok {
						dec.SetCompressionThreshold(sc.Threshold)
					}
					if _, ok := pc.Packet.(*packet.ServerLoginSuccess); ok {
						dec.SetState(state.Play)
					}
				}
			})
		}
		if os.Getenv("LISTER") != "" {
			simrt.Go(func() {
				for i := 0; i < 30; i++ {
					n := len(p.Players())
					_ = n
					simrt.Sleep(time.Millisecond)
				}
			})
		}
		client(0, "Alice", 0)
		client(1, "Bob", 10*time.Millisecond)
		r.why = s.Run(200000, 2*time.Second, nil)
		r.count = p.PlayerCount()
		r.byNameA = p.PlayerByName("Alice") != nil
		r.byIDs = len(p.Players())
		r.clientB = clientDone[0] + " | " + clientDone[1]
		r.hash = s.Hash()
		r.steps = s.Steps
		r.adopted = len(s.Adopted)
		if os.Getenv("DUMP") != "" {
			t.Logf("adopted=%v", s.Adopted)
			t.Logf("parked=%s", s.Dump())
		}
		// teardown: free-run everything and close the links so goroutines can exit
		s.Close()
		for _, c := range conns {
			_ = c.Close()
		}
		time.Sleep(time.Hour)
	})
	return
}

func TestLoginDup(t *testing.T) {
	n := 20
	if v := os.Getenv("SEEDS"); v != "" {
		n, _ = strconv.Atoi(v)
	}
	for seed := 0; seed < n; seed++ {
		r := oneRun(t, int64(seed))
		t.Logf("seed=%d why=%s steps=%d hash=%x adopted=%d count=%d byName=%v players=%d clients=%s", seed, r.why, r.steps, r.hash, r.adopted, r.count, r.byNameA, r.byIDs, r.clientB)
	}
}
