package e5

import (
	"bytes"
	"fmt"
	"hash/fnv"
	"math/rand"
	"os"
	"runtime"
	"sort"
	"strconv"
	"sync"
	"testing"
	"testing/synctest"
	"time"
)

// ---- toy sim runtime ----
type G struct {
	id     string
	wake   chan struct{}
	site   string
	lockW  bool // waiting for a lock
	nspawn int
}

type Sim struct {
	mu     sync.Mutex // only protects registry from real parallel registration; taken under RaceDisable
	byGoid map[uint64]*G
	parked map[*G]bool
	rng    *rand.Rand
	trace  *bytes.Buffer
	steps  int
}

var S *Sim

func goid() uint64 {
	var buf [64]byte
	n := runtime.Stack(buf[:], false)
	b := buf[len("goroutine "):n]
	i := bytes.IndexByte(b, ' ')
	v, _ := strconv.ParseUint(string(b[:i]), 10, 64)
	return v
}

func cur() *G {
	S.mu.Lock()
	g := S.byGoid[goid()]
	S.mu.Unlock()
	return g
}

func Spawn() string { // called by parent before go
	g := cur()
	g.nspawn++
	return fmt.Sprintf("%s.%d", g.id, g.nspawn)
}

func Start(id string) { // first statement in child
	g := &G{id: id, wake: make(chan struct{})}
	S.mu.Lock()
	S.byGoid[goid()] = g
	S.mu.Unlock()
	park(g, "start", false)
}

func Exit() {
	S.mu.Lock()
	delete(S.byGoid, goid())
	S.mu.Unlock()
}

func park(g *G, site string, lockW bool) {
	g.site, g.lockW = site, lockW
	S.mu.Lock()
	S.parked[g] = true
	S.mu.Unlock()
	<-g.wake
}

func Yield(site string) { park(cur(), site, false) }

func Lock(try func() bool, site string) {
	g := cur()
	park(g, site, false)
	for !try() {
		park(g, site, true)
	}
}

func Unlock(u func()) {
	u()
	S.mu.Lock()
	for g := range S.parked {
		g.lockW = false
	}
	S.mu.Unlock()
}

func (s *Sim) run(maxSteps int) (deadlock bool) {
	for s.steps = 0; s.steps < maxSteps; s.steps++ {
		synctest.Wait()
		s.mu.Lock()
		var cands []*G
		for g := range s.parked {
			if !g.lockW {
				cands = append(cands, g)
			}
		}
		nparked := len(s.parked)
		s.mu.Unlock()
		if len(cands) == 0 {
			s.mu.Lock()
			live := len(s.byGoid) - 1
			s.mu.Unlock()
			if live == 0 {
				return false
			}
			if nparked == live {
				return true // everyone waits for a lock
			}
			fmt.Fprintf(s.trace, "T;")
			time.Sleep(500 * time.Microsecond) // advance fake clock
			continue
		}
		sort.Slice(cands, func(i, j int) bool { return cands[i].id < cands[j].id })
		g := cands[s.rng.Intn(len(cands))]
		fmt.Fprintf(s.trace, "%s@%s;", g.id, g.site)
		s.mu.Lock()
		delete(s.parked, g)
		s.mu.Unlock()
		g.wake <- struct{}{}
	}
	return false
}

// ---- system under test (as if instrumented) ----
type Counter struct {
	mu sync.Mutex
	n  int
}

func (c *Counter) IncBuggy() { // lost update: read under lock, write under another lock
	Lock(c.mu.TryLock, "inc.lock1")
	v := c.n
	Unlock(c.mu.Unlock)
	Lock(c.mu.TryLock, "inc.lock2")
	c.n = v + 1
	Unlock(c.mu.Unlock)
}

func oneRun(seed int64, workers, incs int) (final int, hash uint64, steps int, dl bool) {
	S = &Sim{byGoid: map[uint64]*G{}, parked: map[*G]bool{}, rng: rand.New(rand.NewSource(seed)), trace: new(bytes.Buffer)}
	c := &Counter{}
	root := &G{id: "r", wake: make(chan struct{})}
	S.byGoid[goid()] = root
	for w := 0; w < workers; w++ {
		id := Spawn()
		go func() {
			Start(id)
			defer Exit()
			for i := 0; i < incs; i++ {
				c.IncBuggy()
				time.Sleep(time.Millisecond) // durable block outside sim, then yield
				Yield("afterSleep")
			}
		}()
	}
	dl = S.run(1 << 20)
	h := fnv.New64a()
	h.Write(S.trace.Bytes())
	return c.n, h.Sum64(), S.steps, dl
}

func TestSCT(t *testing.T) {
	seeds := 300
	if v := os.Getenv("SEEDS"); v != "" {
		seeds, _ = strconv.Atoi(v)
	}
	start := time.Now()
	total := 0
	lost := 0
	out := new(bytes.Buffer)
	for s := 0; s < seeds; s++ {
		var final, steps int
		var hash uint64
		var dl bool
		synctest.Test(t, func(t *testing.T) {
			final, hash, steps, dl = oneRun(int64(s), 4, 5)
		})
		total += steps
		if final != 20 {
			lost++
		}
		fmt.Fprintf(out, "%d %d %x %d %v\n", s, final, hash, steps, dl)
	}
	el := time.Since(start)
	h := fnv.New64a()
	h.Write(out.Bytes())
	t.Logf("GOMAXPROCS=%d seeds=%d steps=%d lost=%d elapsed=%v steps/s=%.0f LOGHASH=%x", runtime.GOMAXPROCS(0), seeds, total, lost, el, float64(total)/el.Seconds(), h.Sum64())
}
