package worlds

import (
	"context"
	"errors"
	"fmt"
	"os"
	"path/filepath"
	"time"

	"github.com/fsnotify/fsnotify"
	"go.minekube.com/gate/pkg/internal/reload"
	"go.minekube.com/gate/pkg/zzverif/simrt"
)

// C38 — config file reload fires once for the final content despite lost fs events.
//
// The real reload watch loop (runWatchLoop) with an injected event watcher; real files in
// a per-run temp dir; an actor performs a tape-generated sequence over a 4-letter content
// alphabet: write, torn write (two steps), atomic replace, delete, recreate. Faults: each
// notification is dropped / duplicated / delayed past the debounce; the watcher reports an
// error or closes its channel (forcing a re-attach); the callback returns errors. Oracle
// (bounded liveness, checked after the last mutation): if the final content differs from
// what the last callback saw, a callback for the final content runs within
// reconciliation interval + debounce; never two callbacks without a file mutation between
// them.
func init() {
	Register(&Scenario{Prop: "C38", Desc: "config reload: once for the final content despite lost fs events", Run: runC38,
		Quick: 600, Thorough: 100000,
		Real:  "pkg/internal/reload: watchWithOptions/runWatchLoop (debounce, reconciliation ticker, fingerprinting, watcher re-attach) on real files",
		Model: "fake fsnotify event source (drop/duplicate/delay/error/close); file-mutating actor"})
}

type fakeWatcher struct {
	ev   chan fsnotify.Event
	er   chan error
	dead bool
}

func (f *fakeWatcher) Events() <-chan fsnotify.Event { return f.ev }
func (f *fakeWatcher) Errors() <-chan error          { return f.er }
func (f *fakeWatcher) Close() error                  { f.dead = true; return nil }

func runC38(r *Run) {
	s := r.NewSim(400000)
	dir, err := os.MkdirTemp("", "vsim-c38-")
	if err != nil {
		r.HarnessError("tempdir: %v", err)
		return
	}
	defer os.RemoveAll(dir)
	path := filepath.Join(dir, "config.yml")
	alphabet := []string{"A", "BB", "CCC", "DDDD"}
	if r.W.Pick(3) == 0 {
		alphabet = []string{"A", "B", "CC", "DD"} // different contents of equal length
	}
	cur := alphabet[0]
	// File times are set by the harness (one second per mutation, or kept, as `cp -p` and
	// `rsync -t` do), so that nothing depends on the wall clock of the machine.
	t0 := time.Date(2024, 1, 1, 0, 0, 0, 0, time.UTC)
	mtime := t0
	stamp := func(keep bool) {
		if !keep {
			mtime = mtime.Add(time.Second)
		}
		_ = os.Chtimes(path, mtime, mtime)
	}
	// the configuration path may be a symbolic link that is swapped to publish new content
	viaLink := r.W.Pick(4) == 0
	gen := 0
	if viaLink {
		_ = os.WriteFile(filepath.Join(dir, "real-0"), []byte(cur), 0o644)
		_ = os.Symlink("real-0", path)
	} else {
		_ = os.WriteFile(path, []byte(cur), 0o644)
	}
	stamp(true)
	exists := true
	read := func() string {
		b, err := os.ReadFile(path)
		if err != nil {
			return "<absent>"
		}
		return string(b)
	}
	type cbRec struct {
		at      time.Time
		content string
		muts    int // number of file mutations performed so far
	}
	var cbs []cbRec
	mutations := 0
	cbFails := r.F.Pick(3) == 0
	var watchers []*fakeWatcher
	attachErrors := 0
	newWatcher := func(d string) (reload.VerifEventWatcher, error) {
		if attachErrors > 0 {
			attachErrors--
			return nil, errors.New("inotify limit")
		}
		fw := &fakeWatcher{ev: make(chan fsnotify.Event), er: make(chan error)}
		watchers = append(watchers, fw)
		return fw, nil
	}
	ctx, cancel := context.WithCancel(context.Background())
	defer cancel()
	start := time.Now()
	// all harness instants are offset by (k+1) microseconds + 0.5 us so that they never
	// coincide with the loop's own ticker/debounce instants (select stays single-ready)
	tick := 0
	at := func(ms int) time.Duration {
		tick++
		return time.Duration(ms)*time.Millisecond + time.Duration(tick)*time.Microsecond + 500*time.Nanosecond
	}
	if err := reload.VerifWatch(ctx, path, func() error {
		cbs = append(cbs, cbRec{at: time.Now(), content: read(), muts: mutations})
		if cbFails {
			return reload.Reject("invalid")
		}
		return nil
	}, newWatcher, 0); err != nil {
		r.HarnessError("VerifWatch: %v", err)
		return
	}
	notify := func(op fsnotify.Op) {
		// deliver (or not) a notification for the file to the live watcher
		if len(watchers) == 0 {
			return
		}
		fw := watchers[len(watchers)-1]
		if fw.dead {
			return
		}
		send := func(delay time.Duration) {
			simrt.Go(func() {
				if delay > 0 {
					simrt.Sleep(delay, "c38.notify-delay")
				}
				if fw.dead {
					return
				}
				func() {
					defer func() { _ = recover() }() // the channel may have been closed meanwhile
					select {
					case fw.ev <- fsnotify.Event{Name: path, Op: op}:
					case <-time.After(5 * time.Second):
					}
				}()
				simrt.Resumed("c38.notify-sent")
			})
		}
		switch r.F.Pick(6) {
		case 0, 1:
			send(0)
		case 2:
			r.Fault("fs_event_dropped")
		case 3:
			r.Fault("fs_event_duplicated")
			send(0)
			send(at(0) + 3*time.Microsecond)
		case 4:
			r.Fault("fs_event_delayed_past_debounce")
			send(at(150 + r.F.Pick(400)))
		case 5:
			r.Fault("fs_event_delayed")
			send(at(1 + r.F.Pick(80)))
		}
	}
	nOps := 1 + r.W.Pick(8)
	var lastMutation time.Time
	var mutTimes []time.Time
	actorDone := false
	s.GoNamed("mutator", func() {
		defer func() { actorDone = true }()
		simrt.Sleep(at(5), "c38.start")
		for i := 0; i < nOps; i++ {
			switch op := r.W.Pick(7); op {
			case 0, 1: // write
				cur = alphabet[r.W.Pick(len(alphabet))]
				r.Op("write")
				_ = os.WriteFile(path, []byte(cur), 0o644)
				stamp(r.W.Pick(3) == 0)
				exists = true
				mutations++
				notify(fsnotify.Write)
			case 2: // torn write: truncate, then content
				next := alphabet[r.W.Pick(len(alphabet))]
				r.Op("torn-write")
				_ = os.WriteFile(path, nil, 0o644)
				stamp(false)
				mutations++
				mutTimes = append(mutTimes, time.Now())
				notify(fsnotify.Write)
				simrt.Sleep(at(1+r.W.Pick(150)), "c38.torn")
				_ = os.WriteFile(path, []byte(next), 0o644)
				stamp(false)
				cur, exists = next, true
				mutations++
				notify(fsnotify.Write)
			case 3: // atomic replace
				cur = alphabet[r.W.Pick(len(alphabet))]
				r.Op("atomic-replace")
				tmp := path + ".tmp"
				keep := r.W.Pick(3) == 0
				if viaLink && r.W.Pick(2) == 0 {
					// ln -sfn: a new target, the link is replaced atomically
					r.Probe("symlink_swapped")
					gen++
					target := fmt.Sprintf("real-%d", gen)
					_ = os.WriteFile(filepath.Join(dir, target), []byte(cur), 0o644)
					_ = os.Symlink(target, tmp)
					_ = os.Rename(tmp, path)
				} else {
					_ = os.WriteFile(tmp, []byte(cur), 0o644)
					_ = os.Rename(tmp, path)
				}
				if keep {
					r.Probe("replaced_keeping_size_or_mtime")
				}
				stamp(keep)
				exists = true
				mutations++
				notify(fsnotify.Create)
			case 4: // delete
				if exists {
					r.Op("delete")
					_ = os.Remove(path)
					exists = false
					mutations++
					notify(fsnotify.Remove)
				}
			case 5: // recreate / same content rewrite
				r.Op("rewrite-same")
				if !exists {
					mutations++
				}
				_ = os.WriteFile(path, []byte(cur), 0o644)
				stamp(r.W.Pick(2) == 0)
				exists = true
				notify(fsnotify.Write)
			case 6: // watcher trouble
				if len(watchers) > 0 && !watchers[len(watchers)-1].dead {
					fw := watchers[len(watchers)-1]
					if r.F.Pick(2) == 0 {
						r.Fault("watcher_error")
						simrt.Go(func() {
							select {
							case fw.er <- errors.New("overflow"):
							case <-time.After(5 * time.Second):
							}
							simrt.Resumed("c38.err-sent")
						})
					} else {
						r.Fault("watcher_channel_closed")
						fw.dead = true
						close(fw.ev)
					}
					attachErrors = r.F.Pick(3)
				}
			}
			lastMutation = time.Now()
			mutTimes = append(mutTimes, lastMutation)
			simrt.Sleep(at(r.W.Pick(600)), "c38.gap")
		}
	})
	why := s.RunUntil(60*time.Second, func() bool { return actorDone })
	if why == "steps" {
		r.Inconclusive("step budget exhausted")
		return
	}
	// quiet period: twice the bound
	s.RunUntil(2*time.Second, nil)
	final := read()
	desc := func() string {
		var cs []string
		for _, c := range cbs {
			cs = append(cs, fmt.Sprintf("%q@%v(m%d)", c.content, c.at.Sub(start).Round(time.Millisecond), c.muts))
		}
		return fmt.Sprintf("ops=%d mutations=%d last-mutation@%v final=%q callbacks=%v cb-fails=%v", nOps, mutations, lastMutation.Sub(start).Round(time.Millisecond), final, cs, cbFails)
	}
	// never two callbacks without a mutation in between; never for unchanged content
	for i := 1; i < len(cbs); i++ {
		// The loop fingerprints first and calls back one debounce later; the callback reads
		// the file itself. A mutation shortly before callback i-1 means that callback may
		// have been for the older fingerprint, which justifies callback i.
		recent := false
		for _, mt := range mutTimes {
			if d := cbs[i-1].at.Sub(mt); d >= 0 && d <= 360*time.Millisecond {
				recent = true
			}
		}
		if cbs[i].muts == cbs[i-1].muts && !recent {
			r.Fail("callback-twice-for-same-content", "dup", "two reload callbacks ran with no file mutation in between: %s", desc())
			return
		}
	}
	if len(cbs) > 0 && cbs[0].muts == 0 {
		r.Fail("callback-for-unchanged-content", "initial", "the reload callback ran although the file was never changed: %s", desc())
		return
	}
	// bounded liveness after the last mutation
	lastSeen := alphabet[0]
	var lastCb *cbRec
	for i := range cbs {
		if !cbs[i].at.After(lastMutation) {
			lastSeen = cbs[i].content
		} else if lastCb == nil {
			lastCb = &cbs[i]
		}
	}
	bound := 250*time.Millisecond + 100*time.Millisecond + 5*time.Millisecond
	if final != lastSeen {
		if lastCb == nil {
			r.Fail("final-content-never-reloaded", "liveness", "the file settled on new content but no reload callback followed within 2 s: %s", desc())
			return
		}
		last := cbs[len(cbs)-1]
		if last.content != final {
			r.Fail("final-content-never-reloaded", "liveness-content", "the last callback saw %q, the file settled on %q: %s", last.content, final, desc())
			return
		}
		if d := lastCb.at.Sub(lastMutation); d > bound && len(watchers) > 0 {
			r.Fail("reload-too-late", "liveness-bound", "the callback for the final content came %v after the last mutation (bound: reconciliation interval + debounce = 350ms): %s", d, desc())
			return
		}
	}
	r.State(fmt.Sprintf("ops%d cb%d final%s", nOps, len(cbs), final))
	r.Res.Sample = map[string]any{"ops": nOps, "mutations": mutations, "callbacks": len(cbs), "final": final, "watchers": len(watchers)}
}
