package e3

import (
	"runtime"
	"sync"
	"testing"
	"testing/synctest"
)

type gor struct{ wake chan struct{} }

var parked = make(chan *gor, 16)

func yield(g *gor) {
	runtime.RaceDisable()
	parked <- g
	<-g.wake
	runtime.RaceEnable()
}

func run(t *testing.T, useMu bool) {
	synctest.Test(t, func(t *testing.T) {
		var mu sync.Mutex
		x := 0
		m := map[int]int{}
		body := func(g *gor, v int) {
			yield(g)
			if useMu {
				mu.Lock()
			}
			x = v
			m[v] = v
			if useMu {
				mu.Unlock()
			}
			yield(g)
		}
		parkedLocal := make(chan *gor, 16)
		parked = parkedLocal
		g1, g2 := &gor{make(chan struct{})}, &gor{make(chan struct{})}
		go body(g1, 1)
		go body(g2, 2)
		// scheduler: serialize
		runtime.RaceDisable()
		for steps := 0; steps < 4; steps++ {
			synctest.Wait()
			var gs []*gor
			for len(parkedLocal) > 0 {
				gs = append(gs, <-parkedLocal)
			}
			// release exactly one: prefer g1 then g2
			var pick *gor
			for _, g := range gs {
				if g == g1 {
					pick = g
				}
			}
			if pick == nil {
				pick = gs[0]
			}
			for _, g := range gs {
				if g != pick {
					parkedLocal <- g
				}
			}
			pick.wake <- struct{}{}
		}
		synctest.Wait()
		runtime.RaceEnable()
		_ = x
	})
}

func TestNoMutex(t *testing.T) { run(t, false) }
func TestMutex(t *testing.T)   { run(t, true) }
