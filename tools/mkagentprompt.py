#!/usr/bin/env python3
# usage: mkagentprompt.py <ID>  -> prints the prompt for a mutation sub-agent (property text + worktree only)
import json, sys
pid = sys.argv[1]
prop = None
for l in open('/verif/properties.jsonl'):
    d = json.loads(l)
    if d['id'] == pid:
        prop = d
wt = f"/tmp/wt-{pid}"
print(f"""You are helping to evaluate a verification tool for the Go project minekube/gate (a Minecraft reverse proxy).
You get a private scratch git worktree of the project at {wt} (work ONLY inside it; never touch /repo or /verif; do not commit).

Environment: the machine is offline. In every shell call first run
  export GOFLAGS=-mod=mod GOPROXY=off GOSUMDB=off GOTOOLCHAIN=local
and use the `go1.26.8` binary instead of `go` (e.g. `cd {wt} && go1.26.8 build ./... && go1.26.8 test -vet=off -count=1 ./pkg/...`).

The property under study (a semantic property users of gate rely on):

  id: {prop['id']}
  title: {prop['title']}
  statement: {prop['statement']}
  holds for: {prop['quantifier']['text']}
  anchored in: {json.dumps(prop['anchors'].get('files'))}
  mechanisms: {json.dumps(prop['anchors'].get('mechanism'))}

Task: produce TWO different, realistic code changes ("regressions a maintainer could plausibly introduce": a refactoring slip, a wrong condition, a dropped lock/unlock or check, an off-by-one, a reordered step, a missed case for one protocol version ...) to the NON-test Go code of gate, each of which
  1. BREAKS the property above (for at least some input / schedule / fault / history),
  2. still compiles (`go1.26.8 build ./...`) and still passes the project's existing tests, unedited (`go1.26.8 test -vet=off -count=1 ./...` — run at least the packages you touched and everything under ./pkg/edition/java/... and ./pkg/internal/...),
  3. needs something SPECIFIC to manifest (a particular input shape, protocol version, interleaving, fault or history) — not a change that breaks every run trivially, and not a change to logging/comments only. Prefer subtle over blunt. The two changes should break the property in different ways / at different places.

For each change i in {{1,2}} write, inside {wt}:
  - MUTATION{{i}}.diff : the change as a unified diff (`git diff` output, relative to the worktree root; the worktree must be clean of the other change when you produce it — NEVER use `git stash` (it is shared with other parallel worktrees); use `git diff > file`, `git checkout -- .`, `git apply file` between the two),
  - DEMO{{i}}.md : what the change does, why the property is violated, and the concrete trigger (input / protocol version / schedule / fault sequence) that shows it; if practical include a small Go test (as text in the md or as a file DEMO{{i}}_test.go.txt) that fails with the change and passes without it, and say whether you actually ran it,
Leave the worktree with NO modifications applied at the end (git checkout -- . ; keep the untracked MUTATION/DEMO files).
Finally reply with a short summary: for each change, one paragraph (files touched, trigger, and confirmation that build + existing tests pass).""")
