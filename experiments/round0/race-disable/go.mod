module e3

go 1.26
