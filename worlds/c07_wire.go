package worlds

import (
	"bytes"
	"fmt"
	"go.minekube.com/gate/pkg/edition/java/profile"
	"go.minekube.com/gate/pkg/edition/java/proto/packet/tablist/playerinfo"
	itab "go.minekube.com/gate/pkg/internal/tablist"
	"strings"
	"time"

	"go.minekube.com/common/minecraft/component"
	"go.minekube.com/gate/pkg/edition/java/config"
	"go.minekube.com/gate/pkg/edition/java/proto/packet"
	"go.minekube.com/gate/pkg/edition/java/proto/packet/plugin"
	"go.minekube.com/gate/pkg/edition/java/proto/state"
	"go.minekube.com/gate/pkg/edition/java/proto/version"
	"go.minekube.com/gate/pkg/edition/java/proxy/message"
	gproto "go.minekube.com/gate/pkg/gate/proto"
	"go.minekube.com/gate/pkg/zzverif/mcpeer"
	"go.minekube.com/gate/pkg/zzverif/simrt"
)

// C07 — packets the proxy builds decode as intended by an independent decoder.
//
// Whole sessions through the real proxy (offline mode, forwarding none, every compression
// setting, 13 protocol versions from 1.8 to 1.21.4): login, backend handshake and login,
// keep-alives relayed in both directions, plugin messages sent through the player API and
// the server-connection API, a transfer (1.20.5+) or a disconnect with a reason. Every frame
// either peer receives is kept raw; afterwards each packet of a kind the proxy builds itself
// is decoded with mcpeer's version-aware decoders (no gate code) and compared with what the
// scenario made the proxy send: field values, and complete consumption of the body.
// Status responses are covered by C43, player-info by C28, forwarding payloads by C19/C20,
// frames by C01; 1.7 sessions are not modelled (the 1.7 array framing is covered by C03).
func init() {
	Register(&Scenario{Prop: "C07", Desc: "proxy-built packets decode to the intended values with an independent decoder", Run: runC07,
		Quick: 300, Thorough: 60000,
		Real:  "proxy.Proxy sessions: packet encoders for handshake, login start/success, set compression, keep-alive, plugin message, disconnect, transfer; codec",
		Model: "client and backend actors; independent per-version packet decoders (mcpeer) as oracle"})
}

func runC07(r *Run) {
	prots := []gproto.Protocol{version.Minecraft_1_8.Protocol, version.Minecraft_1_12_2.Protocol, version.Minecraft_1_13.Protocol, version.Minecraft_1_15.Protocol,
		version.Minecraft_1_18_2.Protocol, version.Minecraft_1_19.Protocol, version.Minecraft_1_19_1.Protocol, version.Minecraft_1_19_3.Protocol, version.Minecraft_1_19_4.Protocol,
		version.Minecraft_1_20_2.Protocol, version.Minecraft_1_20_3.Protocol, version.Minecraft_1_20_5.Protocol, version.Minecraft_1_21.Protocol, version.Minecraft_1_21_4.Protocol, version.Minecraft_1_12_1.Protocol, version.Minecraft_1_21_2.Protocol, version.Minecraft_1_16_4.Protocol, version.Minecraft_1_17.Protocol}
	prot := prots[r.W.Pick(len(prots))]
	w := newClassic(r, []string{"lobby"}, func(cfg *config.Config) { cfg.ForceKeyAuthentication = false })
	proxyEvents(w)
	name := []string{"Wirey", "ab", "Sixteen_Chars_Ok"}[r.W.Pick(3)]
	host := []string{"play.example.com", "10.0.0.3", "MiXed.Example.ORG"}[r.W.Pick(3)]
	end := []string{"disconnect", "disconnect", "transfer", "stay"}[r.W.Pick(4)]
	if end == "transfer" && prot.Lower(version.Minecraft_1_20_5) {
		end = "disconnect"
	}
	reason := fmt.Sprintf("bye %d \"quoted\" ünï", r.W.Pick(1000))
	kaIDs := []int64{0, 1, -1, 127, 128, 1<<31 - 1, -(1 << 31), int64(r.W.Pick(1 << 30))}
	if prot.GreaterEqual(version.Minecraft_1_12_2) {
		kaIDs = append(kaIDs, 1<<62+12345, -(1 << 60), 1<<32)
	}
	nKA := 1 + r.W.Pick(3)
	var sentKA []int64
	for i := 0; i < nKA; i++ {
		sentKA = append(sentKA, kaIDs[r.W.Pick(len(kaIDs))]+int64(i)*0) // ids may repeat across runs, not within: see below
	}
	// distinct ids within a run
	seen := map[int64]bool{}
	var ka []int64
	for _, id := range sentKA {
		if !seen[id] {
			seen[id] = true
			ka = append(ka, id)
		}
	}
	type pm struct {
		ch   string
		data []byte
	}
	var toClient, toBackend []pm
	for i, n := 0, r.W.Pick(4); i < n; i++ {
		toClient = append(toClient, pm{[]string{"verif:a", "verif:long/path.x", "minecraft:brand2"}[r.W.Pick(3)], append([]byte{byte(i + 1)}, genBytes(r, []int{0, 1, 300, 5000}[r.W.Pick(4)])...)})
	}
	for i, n := 0, r.W.Pick(3); i < n; i++ {
		toBackend = append(toBackend, pm{[]string{"verif:b", "verif:q"}[r.W.Pick(2)], append([]byte{byte(i + 1)}, genBytes(r, []int{1, 200, 3000}[r.W.Pick(3)])...)})
	}
	if prot.Lower(version.Minecraft_1_13) {
		// legacy channel names are not namespaced; the API maps identifiers
		for i := range toClient {
			toClient[i].ch = "verif:a"
		}
	}
	backendDone := false
	w.backends["lobby"].Beh.OnJoined = func(bc *backendConn) {
		simrt.Sleep(30*time.Millisecond, "c07.backend")
		for _, id := range ka {
			r.Op("backend-keepalive")
			_ = bc.SendKeepAlive(id)
			simrt.Sleep(5*time.Millisecond, "c07.backend")
		}
		backendDone = true
	}
	apiDone := false
	tabAdded := false
	var cl *clientModel
	cl = w.addClient(name, prot, func(c *clientModel) {
		c.Host = host
		c.AutoKeepAlive = true
		if !c.Login() {
			return
		}
		c.StartReader()
		if !c.WaitConnected(1) {
			return
		}
		pl := w.p.PlayerByName(name)
		if pl == nil {
			return
		}
		for _, m := range toClient {
			r.Op("api-plugin-message-to-client")
			id, _ := message.ChannelIdentifierFrom(m.ch)
			_ = pl.SendPluginMessage(id, m.data)
		}
		if cs := pl.CurrentServer(); cs != nil {
			for _, m := range toBackend {
				r.Op("api-plugin-message-to-backend")
				id, _ := message.ChannelIdentifierFrom(m.ch)
				_ = cs.SendPluginMessage(id, m.data)
			}
		}
		if prot.GreaterEqual(version.Minecraft_1_19_3) {
			// player-info updates built from the tab-list API: a latency-only update first, then
			// adds with different attribute sets
			if root, ok := pl.TabList().(itab.InternalTabList); ok {
				for i := 0; i < 3; i++ {
					r.Op("api-tablist-add")
					e := &itab.Entry{OwningTabList: root, EntryAttributes: itab.EntryAttributes{
						Profile: profile.GameProfile{ID: tabUUID(40 + i), Name: fmt.Sprintf("tab%d", i)},
						Latency: time.Duration(10+i) * time.Millisecond, GameMode: i, Listed: i != 1, ShowsHat: true,
					}}
					if i == 2 {
						e.EntryAttributes.DisplayName = &component.Text{Content: "nick"}
					}
					_ = pl.TabList().Add(e)
					if i == 0 {
						if cur := pl.TabList().Entries()[tabUUID(40)]; cur != nil {
							_ = cur.SetLatency(77 * time.Millisecond)
						}
					}
				}
				tabAdded = true
			}
		}
		for i := 0; !backendDone && i < 200; i++ {
			simrt.Sleep(5*time.Millisecond, "c07.wait-backend")
		}
		simrt.Sleep(60*time.Millisecond, "c07.settle")
		switch end {
		case "disconnect":
			r.Op("api-disconnect")
			pl.Disconnect(&component.Text{Content: reason})
		case "transfer":
			r.Op("api-transfer")
			_ = pl.TransferToHost("other.example.net:25577")
		}
		apiDone = true
		simrt.Sleep(200*time.Millisecond, "c07.drain")
		c.Close()
	})
	why := w.s.RunUntil(60*time.Second, func() bool { return w.allClientsDone() })
	if why == "steps" {
		r.Inconclusive("step budget exhausted")
		return
	}
	if r.CheckDeadlock() {
		return
	}
	if len(cl.JoinGames) == 0 || !apiDone {
		r.Fail("join-failed", "join", "fault-free session did not complete for protocol %d: %v kick %q", prot, clientPhases(w), cl.KickText())
		return
	}
	p := int(prot)
	idOf := func(dir gproto.Direction, st *state.Registry, pk gproto.Packet) int {
		if id, ok := state.FromDirection(dir, st, prot).PacketID(pk); ok {
			return int(id)
		}
		return -1
	}
	bad := func(what string, rec pktRec, format string, a ...any) {
		r.Fail("proxy-built-packet-wrong", what, "protocol %d, %s (state %s, id %#x, body % x): %s", p, what, rec.State, rec.ID, head40(rec.Payload), fmt.Sprintf(format, a...))
	}
	body := func(rec pktRec) []byte {
		b := mcpeer.NewBuf(rec.Payload)
		b.VarInt()
		return rec.Payload[b.Off:]
	}
	// ---- what the client received
	var gotKA []int64
	var gotPM []pm
	sawSuccess, sawDisconnect, sawTransfer := false, false, false
	heldTab := map[[16]byte]*mcpeer.TabEntry{}
	for _, rec := range cl.wire.Recv {
		if r.Failed() {
			return
		}
		switch rec.State {
		case state.Login.String():
			switch rec.ID {
			case idOf(gproto.ClientBound, state.Login, &packet.SetCompression{}):
				t, err := mcpeer.DecodeSetCompression(body(rec))
				if err != nil || int(t) != w.cfg.Compression.Threshold {
					bad("set-compression", rec, "decoded threshold %d err %v, configured %d", t, err, w.cfg.Compression.Threshold)
				}
			case idOf(gproto.ClientBound, state.Login, &packet.ServerLoginSuccess{}):
				sawSuccess = true
				l, err := mcpeer.DecodeLoginSuccess(body(rec), p)
				want := offlineUUID(name)
				okID := l.UUID == [16]byte(want)
				if p < mcpeer.P1_16 {
					okID = l.UUIDString == want.String()
				}
				if err != nil || !okID || l.Name != name || l.Properties != 0 {
					bad("login-success", rec, "decoded %+v err %v; want uuid %s name %q no properties", l, err, want, name)
				}
			}
		case state.Play.String(), state.Config.String():
			st := state.Play
			if rec.State == state.Config.String() {
				st = state.Config
			}
			switch rec.ID {
			case idOf(gproto.ClientBound, st, &packet.KeepAlive{}):
				id, err := mcpeer.DecodeKeepAlive(body(rec), p)
				if err != nil {
					bad("keep-alive", rec, "%v", err)
				}
				gotKA = append(gotKA, id)
			case idOf(gproto.ClientBound, st, &plugin.Message{}):
				ch, data, err := mcpeer.DecodePluginMessage(body(rec), p)
				if err != nil {
					bad("plugin-message", rec, "%v", err)
				}
				if strings.HasPrefix(ch, "verif") || strings.Contains(ch, "brand2") {
					gotPM = append(gotPM, pm{ch, data})
				}
			case idOf(gproto.ClientBound, st, &packet.Disconnect{}):
				sawDisconnect = true
				js, nbt, err := mcpeer.DecodeDisconnect(body(rec), p, false)
				txt := js + string(nbt)
				if err != nil || !strings.Contains(txt, fmt.Sprintf("bye %s", strings.Fields(reason)[1])) || !strings.Contains(txt, "ünï") {
					bad("disconnect", rec, "decoded json %q nbt % x err %v; the reason was %q", js, head40(nbt), err, reason)
				}
			case idOf(gproto.ClientBound, st, &playerinfo.Upsert{}):
				if p >= mcpeer.P1_19_3 && st == state.Play {
					acts, ents, err := mcpeer.DecodePlayerInfoUpdate(body(rec), p)
					if err != nil {
						bad("player-info-update", rec, "%v", err)
					}
					mcpeer.ApplyPlayerInfo(heldTab, acts, ents)
				}
			case idOf(gproto.ClientBound, st, &packet.Transfer{}):
				if p >= mcpeer.P1_20_5 {
					sawTransfer = true
					h, port, err := mcpeer.DecodeTransfer(body(rec))
					if err != nil || h != "other.example.net" || port != 25577 {
						bad("transfer", rec, "decoded host %q port %d err %v", h, port, err)
					}
				}
			}
		}
	}
	if r.Failed() {
		return
	}
	if !sawSuccess {
		r.Fail("proxy-built-packet-missing", "login-success", "the client joined but no login success packet was recorded (protocol %d)", p)
		return
	}
	for _, id := range ka {
		found := false
		for _, g := range gotKA {
			if g == id {
				found = true
			}
		}
		if !found {
			r.Fail("proxy-built-packet-wrong", "keep-alive-value", "protocol %d: backend sent keep-alive %d, an independent decoder reads %v at the client", p, id, gotKA)
			return
		}
	}
	for i, m := range toClient {
		if i >= len(gotPM) || !bytes.Equal(gotPM[i].data, m.data) || !strings.HasSuffix(gotPM[i].ch, strings.TrimPrefix(m.ch, "minecraft:")) && gotPM[i].ch != m.ch {
			got := "(none)"
			if i < len(gotPM) {
				got = fmt.Sprintf("%q %d bytes", gotPM[i].ch, len(gotPM[i].data))
			}
			r.Fail("proxy-built-packet-wrong", "plugin-message-value", "protocol %d: API sent plugin message #%d %q (%d bytes) to the player, an independent decoder reads %s", p, i, m.ch, len(m.data), got)
			return
		}
	}
	if tabAdded {
		for i := 0; i < 3; i++ {
			e := heldTab[[16]byte(tabUUID(40+i))]
			wantLat := int32(10 + i)
			if i == 0 {
				wantLat = 77
			}
			if e == nil || e.Name != fmt.Sprintf("tab%d", i) || e.Latency != wantLat || e.GameMode != int32(i) || e.Listed != (i != 1) || e.HasDisplay != (i == 2) {
				r.Fail("proxy-built-packet-wrong", "player-info-value", "protocol %d: tab-list entry %d added through the API (name tab%d, latency %d, game mode %d, listed %v, display name %v): an independent decoder holds %+v", p, i, i, wantLat, i, i != 1, i == 2, e)
				return
			}
		}
	}
	if end == "disconnect" && !sawDisconnect {
		r.Fail("proxy-built-packet-missing", "disconnect", "protocol %d: Disconnect(reason) was called, the client recorded no disconnect packet (kick %q)", p, cl.KickText())
		return
	}
	if end == "transfer" && !sawTransfer {
		r.Fail("proxy-built-packet-missing", "transfer", "protocol %d: TransferToHost was called, the client recorded no transfer packet", p)
		return
	}
	// ---- what the backend received
	if len(w.backends["lobby"].Conns) == 0 {
		r.HarnessError("no backend connection")
		return
	}
	bc := w.backends["lobby"].Conns[0]
	var bePM []pm
	sawHS, sawLS := false, false
	for _, rec := range bc.w.Recv {
		if r.Failed() {
			return
		}
		switch rec.State {
		case state.Handshake.String():
			sawHS = true
			h, err := mcpeer.DecodeHandshake(body(rec))
			if err != nil || int(h.Protocol) != p || h.Next != 2 || h.Address != host {
				bad("backend-handshake", rec, "decoded %+v err %v; want protocol %d next 2 address %q", h, err, p, host)
			}
		case state.Login.String():
			if rec.ID == idOf(gproto.ServerBound, state.Login, &packet.ServerLogin{}) {
				sawLS = true
				l, err := mcpeer.DecodeLoginStart(body(rec), p)
				if err != nil || l.Name != name || (l.HasUUID && l.UUID != [16]byte(offlineUUID(name))) || (p >= mcpeer.P1_19_3 && !l.HasUUID) {
					bad("backend-login-start", rec, "decoded %+v err %v; want name %q uuid %s", l, err, name, offlineUUID(name))
				}
			}
		case state.Play.String(), state.Config.String():
			st := state.Play
			if rec.State == state.Config.String() {
				st = state.Config
			}
			switch rec.ID {
			case idOf(gproto.ServerBound, st, &plugin.Message{}):
				ch, data, err := mcpeer.DecodePluginMessage(body(rec), p)
				if err != nil {
					bad("backend-plugin-message", rec, "%v", err)
				}
				if strings.HasPrefix(ch, "verif") {
					bePM = append(bePM, pm{ch, data})
				}
			case idOf(gproto.ServerBound, st, &packet.KeepAlive{}):
				if _, err := mcpeer.DecodeKeepAlive(body(rec), p); err != nil {
					bad("backend-keep-alive", rec, "%v", err)
				}
			}
		}
	}
	if r.Failed() {
		return
	}
	if !sawHS || !sawLS {
		r.Fail("proxy-built-packet-missing", "backend-login", "protocol %d: backend recorded handshake=%v login start=%v", p, sawHS, sawLS)
		return
	}
	for i, m := range toBackend {
		if i >= len(bePM) || !bytes.Equal(bePM[i].data, m.data) || bePM[i].ch != m.ch {
			r.Fail("proxy-built-packet-wrong", "backend-plugin-message-value", "protocol %d: API sent plugin message #%d %q (%d bytes) to the backend, an independent decoder reads %v", p, i, m.ch, len(m.data), len(bePM))
			return
		}
	}
	r.State(fmt.Sprintf("p%d thr%d end%s ka%d pm%d/%d", p, w.cfg.Compression.Threshold, end, len(ka), len(toClient), len(toBackend)))
	r.Res.Sample = map[string]any{"protocol": p, "threshold": w.cfg.Compression.Threshold, "end": end, "keepalives": len(ka), "plugin_to_client": len(toClient), "plugin_to_backend": len(toBackend), "client_packets": len(cl.wire.Recv), "backend_packets": len(bc.w.Recv)}
}
