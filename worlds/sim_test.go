package worlds

import (
	"bufio"
	"encoding/json"
	"fmt"
	"io"
	"os"
	"runtime"
	"strconv"
	"strings"
	"testing"
	"testing/synctest"
	"time"

	"go.minekube.com/gate/pkg/zzverif/simrt"
)

func envInt(name string, def int) int {
	if v := os.Getenv(name); v != "" {
		n, err := strconv.Atoi(v)
		if err == nil {
			return n
		}
	}
	return def
}

func envU64(name string, def uint64) uint64 {
	if v := os.Getenv(name); v != "" {
		n, err := strconv.ParseUint(v, 10, 64)
		if err == nil {
			return n
		}
	}
	return def
}

// runOne executes one simulated run. tapes==nil: generate from seed.
func runOne(t *testing.T, prop, tier string, base uint64, index int, tapes *Tapes, replay bool) *Result {
	sc := Lookup(prop)
	seed := simrt.SplitMix(base, uint64(index))
	res := &Result{Prop: prop, Index: index, Seed: base}
	if sc == nil {
		res.Harness = "unknown property " + prop
		return res
	}
	r := &Run{Prop: prop, Seed: seed, Tier: tier, Res: res, Replay: replay}
	if tapes != nil {
		r.W, r.S, r.F, r.A = simrt.ReplayTape(tapes.W), simrt.ReplayTape(tapes.S), simrt.ReplayTape(tapes.F), simrt.ReplayTape(tapes.A)
	} else {
		r.W, r.S, r.F, r.A = simrt.NewTape(simrt.SplitMix(seed, 1)), simrt.NewTape(simrt.SplitMix(seed, 2)), simrt.NewTape(simrt.SplitMix(seed, 3)), simrt.NewTape(simrt.SplitMix(seed, 4))
	}
	running.Store(true)
	defer running.Store(false)
	raceMark := raceLogSize()
	func() {
		defer func() {
			if e := recover(); e != nil {
				msg := fmt.Sprint(e)
				if strings.Contains(msg, "blocked goroutines remain") {
					res.Leaked = 1
					return
				}
				buf := make([]byte, 16<<10)
				n := runtime.Stack(buf, false)
				res.Harness = "panic: " + msg + "\n" + string(buf[:n])
			}
		}()
		// In a race build the testing package fails the bubble's T when the detector
		// reported something and then FailNow()s (Goexit) the calling goroutine: keep that
		// away from the worker loop, the reports themselves are collected by vcheck.
		bubble := func(f func(t *testing.T)) {
			if !simrt.RaceBuild {
				synctest.Test(t, f)
				return
			}
			done := make(chan any, 1)
			go func() {
				defer func() { done <- recover() }()
				synctest.Test(t, f)
			}()
			if e := <-done; e != nil {
				panic(e)
			}
		}
		bubble(func(t *testing.T) {
			defer r.Finish()
			defer func() {
				if e := recover(); e != nil {
					if _, ok := e.(abortRun); ok {
						return
					}
					buf := make([]byte, 16<<10)
					n := runtime.Stack(buf, false)
					res.Harness = "panic in driver: " + fmt.Sprint(e) + "\n" + string(buf[:n])
				}
			}()
			sc.Run(r)
		})
	}()
	if simrt.RaceBuild {
		if txt := raceLogSince(raceMark); strings.Contains(txt, "WARNING: DATA RACE") {
			// a scenario may limit the reports it answers for to the code its property is
			// about; other reports in gate code are counted as observations
			var in []string
			for _, rep := range strings.Split(txt, "==================\n==================") {
				ok := len(sc.RaceScope) == 0
				for _, sub := range sc.RaceScope {
					if strings.Contains(rep, sub) {
						ok = true
					}
				}
				if ok {
					in = append(in, rep)
				} else {
					if res.Probes == nil {
						res.Probes = map[string]int{}
					}
					res.Probes["race_report_outside_property_scope"]++
				}
			}
			res.Race = strings.Join(in, "==================\n==================")
		}
	}
	if tapes == nil && (res.Viol != nil || res.Harness != "" || res.Race != "") {
		res.Tapes = &Tapes{W: r.W.Rec, S: r.S.Rec, F: r.F.Rec, A: r.A.Rec}
	}
	return res
}

type abortRun struct{}

// Abort ends the scenario early (after a violation was recorded).
func (r *Run) Abort() { panic(abortRun{}) }

func startWatchdog() {
	go func() {
		last := int64(-1)
		stuck := 0
		for {
			time.Sleep(time.Second)
			cur := simrt.GlobalProgress.Load() + progressExtra.Load()
			if !running.Load() {
				stuck = 0
			} else if cur == last {
				stuck++
			} else {
				stuck = 0
			}
			last = cur
			if stuck >= envInt("VSIM_WATCHDOG_S", 90) {
				buf := make([]byte, 4<<20)
				n := runtime.Stack(buf, true)
				fmt.Fprintf(os.Stderr, "VSIM-WATCHDOG: no progress for %d s; goroutines:\n%s\n", stuck, buf[:n])
				os.Exit(3)
			}
		}
	}()
}

type serveReq struct {
	Prop  string `json:"prop"`
	Tier  string `json:"tier"`
	Seed  uint64 `json:"seed"`
	Index int    `json:"index"`
	Tapes *Tapes `json:"tapes"`
	ID    int    `json:"id"`
}

func TestSim(t *testing.T) {
	mode := os.Getenv("VSIM_MODE")
	if mode == "" {
		t.Skip("VSIM_MODE not set")
	}
	startWatchdog()
	switch mode {
	case "list":
		b, _ := json.Marshal(All())
		fmt.Println("SCENARIOS " + string(b))
	case "batch":
		prop := os.Getenv("VSIM_PROP")
		tier := os.Getenv("VSIM_TIER")
		base := envU64("VSIM_SEED", 1)
		from, to := envInt("VSIM_FROM", 0), envInt("VSIM_TO", 1)
		stride := envInt("VSIM_STRIDE", 1)
		deadline := time.Now().Add(time.Duration(envInt("VSIM_BUDGET_S", 3600)) * time.Second)
		out, err := os.Create(os.Getenv("VSIM_OUT"))
		if err != nil {
			t.Fatal(err)
		}
		defer out.Close()
		w := bufio.NewWriter(out)
		enc := json.NewEncoder(w)
		violSeen := map[string]int{}
		nViol := 0
		for i := from; i < to; i += stride {
			if time.Now().After(deadline) {
				break
			}
			fmt.Fprintf(w, "{\"start\":%d}\n", i)
			w.Flush()
			res := runOne(t, prop, tier, base, i, nil, false)
			if res.Viol != nil {
				// keep exploring (known findings must not cut the search short), but bound
				// the output: tapes/traces only for the first few violations of each kind
				k := res.Viol.Class + "|" + res.Viol.Sig
				violSeen[k]++
				if violSeen[k] > 5 {
					res.Tapes, res.Trace = nil, nil
				}
				nViol++
			}
			_ = enc.Encode(res)
			w.Flush()
			if nViol >= 400 && os.Getenv("VSIM_KEEP_GOING") == "" {
				break // hopeless tree: enough evidence
			}
		}
	case "serve":
		sc := bufio.NewScanner(os.Stdin)
		sc.Buffer(make([]byte, 1<<20), 64<<20)
		w := bufio.NewWriter(os.Stdout)
		for sc.Scan() {
			var req serveReq
			if err := json.Unmarshal(sc.Bytes(), &req); err != nil {
				fmt.Fprintf(w, "RESULT {\"harness_error\":%q}\n", err.Error())
				w.Flush()
				continue
			}
			res := runOne(t, req.Prop, req.Tier, req.Seed, req.Index, req.Tapes, req.Tapes != nil && os.Getenv("VSIM_TRACE") != "")
			b, _ := json.Marshal(struct {
				ID int `json:"id"`
				*Result
			}{req.ID, res})
			fmt.Fprintf(w, "RESULT %s\n", b)
			w.Flush()
		}
	}
}

// raceLogPath is the race detector's log file of this process (GORACE log_path=<p> -> <p>.<pid>).
func raceLogPath() string {
	for _, f := range strings.Fields(os.Getenv("GORACE")) {
		if strings.HasPrefix(f, "log_path=") {
			return fmt.Sprintf("%s.%d", strings.TrimPrefix(f, "log_path="), os.Getpid())
		}
	}
	return ""
}

func raceLogSize() int64 {
	if !simrt.RaceBuild {
		return 0
	}
	if st, err := os.Stat(raceLogPath()); err == nil {
		return st.Size()
	}
	return 0
}

// raceLogSince returns the detector reports written since off whose two access stacks both
// lie in gate code. The harness itself (worlds, simnet, peers) shares state between
// simulated goroutines under the simulator's serialization, which the detector cannot see;
// those reports are dropped. simrt frames (MapKeys, lock emulation) are transparent.
func raceLogSince(off int64) string {
	f, err := os.Open(raceLogPath())
	if err != nil {
		return ""
	}
	defer f.Close()
	if _, err := f.Seek(off, io.SeekStart); err != nil {
		return ""
	}
	b, err := io.ReadAll(io.LimitReader(f, 64<<20))
	if err != nil || len(b) == 0 {
		return ""
	}
	var keep []string
	for _, rep := range strings.Split(string(b), "==================") {
		if !strings.Contains(rep, "WARNING: DATA RACE") {
			continue
		}
		blocks := strings.Split(strings.TrimSpace(rep), "\n\n")
		if len(blocks) < 2 {
			continue
		}
		gate := true
		for _, blk := range blocks[:2] {
			top := ""
			for _, l := range strings.Split(blk, "\n") {
				l = strings.TrimSpace(l)
				if l == "" || strings.HasPrefix(l, "/") || strings.HasPrefix(l, "WARNING") || strings.HasPrefix(l, "Read ") || strings.HasPrefix(l, "Write ") || strings.HasPrefix(l, "Previous ") || strings.HasPrefix(l, "Atomic ") || strings.HasPrefix(l, "runtime.") || strings.HasPrefix(l, "sync.") || strings.HasPrefix(l, "sync/atomic.") ||
					strings.HasPrefix(l, "internal/") || strings.HasPrefix(l, "reflect.") || strings.HasPrefix(l, "go.minekube.com/gate/pkg/zzverif/simrt.") {
					continue
				}
				top = l
				break
			}
			if !strings.HasPrefix(top, "go.minekube.com/gate/") || strings.Contains(top, "/zzverif/") {
				gate = false
			}
		}
		if gate {
			keep = append(keep, "==================\n"+strings.TrimSpace(rep)+"\n==================")
			if len(keep) >= 4 {
				break
			}
		}
	}
	return strings.Join(keep, "\n")
}
