package worlds

import (
	"bytes"
	"fmt"
	"io"
	"net"

	"github.com/go-logr/logr"
	"go.minekube.com/gate/pkg/edition/java/proto/codec"
	"go.minekube.com/gate/pkg/edition/java/proto/state"
	"go.minekube.com/gate/pkg/gate/proto"
)

// pktRec is one packet seen by a peer.
type pktRec struct {
	Seq     int
	State   string
	ID      int
	Packet  proto.Packet // nil if unknown to the peer's registry
	Payload []byte       // packet id + body
}

func (p pktRec) String() string {
	if p.Packet != nil {
		return fmt.Sprintf("%T", p.Packet)
	}
	return fmt.Sprintf("id=%#x(%dB)", p.ID, len(p.Payload))
}

// wireEnd is a peer's view of one connection: Gate's codec for framing and packet
// structs (declared: not independent; independence is added per property where the oracle
// needs it by re-decoding Payload with mcpeer).
type wireEnd struct {
	conn     net.Conn
	dec      *codec.Decoder
	enc      *codec.Encoder
	bw       *bytes.Buffer
	prot     proto.Protocol
	rstate   *state.Registry
	wstate   *state.Registry
	recvDir  proto.Direction
	Recv     []pktRec
	seq      *int
	closed   bool
	lastErr  error
}

func newWireEnd(conn net.Conn, recvDir proto.Direction, prot proto.Protocol, seq *int) *wireEnd {
	sendDir := proto.ServerBound
	if recvDir == proto.ServerBound {
		sendDir = proto.ClientBound
	}
	w := &wireEnd{conn: conn, prot: prot, recvDir: recvDir, seq: seq, bw: new(bytes.Buffer)}
	w.dec = codec.NewDecoder(conn, recvDir, logr.Discard())
	w.enc = codec.NewEncoder(w.bw, sendDir, logr.Discard())
	w.dec.SetProtocol(prot)
	w.enc.SetProtocol(prot)
	w.rstate, w.wstate = state.Handshake, state.Handshake
	return w
}

func (w *wireEnd) setProtocol(p proto.Protocol) {
	w.prot = p
	w.dec.SetProtocol(p)
	w.enc.SetProtocol(p)
}

func (w *wireEnd) setReadState(s *state.Registry)  { w.rstate = s; w.dec.SetState(s) }
func (w *wireEnd) setWriteState(s *state.Registry) { w.wstate = s; w.enc.SetState(s) }
func (w *wireEnd) setState(s *state.Registry)      { w.setReadState(s); w.setWriteState(s) }

func (w *wireEnd) setCompression(threshold int) {
	w.dec.SetCompressionThreshold(threshold)
	_ = w.enc.SetCompression(threshold, -1)
}

// send encodes and writes one packet (one Write call on the transport).
func (w *wireEnd) send(p proto.Packet) error {
	w.bw.Reset()
	if _, err := w.enc.WritePacket(p); err != nil {
		return fmt.Errorf("peer encode %T: %w", p, err)
	}
	_, err := w.conn.Write(w.bw.Bytes())
	return err
}

// sendRaw writes a payload (packet id + body) as one frame.
func (w *wireEnd) sendRaw(payload []byte) error {
	w.bw.Reset()
	if _, err := w.enc.Write(payload); err != nil {
		return err
	}
	_, err := w.conn.Write(w.bw.Bytes())
	return err
}

// read returns the next packet (known or unknown). io.EOF etc. on close.
func (w *wireEnd) read() (*pktRec, error) {
	pc, err := w.dec.Decode()
	if err != nil && pc == nil {
		w.lastErr = err
		if isClosedErr(err) {
			w.closed = true
		}
		return nil, err
	}
	*w.seq++
	rec := pktRec{Seq: *w.seq, State: w.rstate.String(), ID: int(pc.PacketID), Packet: pc.Packet, Payload: append([]byte(nil), pc.Payload...)}
	w.Recv = append(w.Recv, rec)
	return &w.Recv[len(w.Recv)-1], nil
}

func isClosedErr(err error) bool {
	if err == nil {
		return false
	}
	s := err.Error()
	return err == io.EOF || bytes.Contains([]byte(s), []byte("EOF")) || bytes.Contains([]byte(s), []byte("closed")) || bytes.Contains([]byte(s), []byte("reset"))
}
