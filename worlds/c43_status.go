package worlds

import (
	"bytes"
	"encoding/json"
	"fmt"
	"time"

	"go.minekube.com/gate/pkg/edition/java/proto/version"
	"go.minekube.com/gate/pkg/zzverif/mcpeer"
	"go.minekube.com/gate/pkg/zzverif/simnet"
	"go.minekube.com/gate/pkg/zzverif/simrt"
)

// C43 — server list pings get one well-formed response and an exact echo.
//
// A status client (raw, independent wire codec) sends a handshake with a tape-chosen
// protocol number (supported / unknown / negative) and then a tape-generated sequence
// over {request, ping(payload), repeated request, unknown id, login-start}; other players
// join and leave concurrently. Oracle: a small sequential model of the status phase as
// stated in the property.
func init() {
	Register(&Scenario{Prop: "C43", Desc: "status: one well-formed response, exact ping echo, close", Run: runC43,
		Quick: 500, Thorough: 80000, Crash: true,
		Real:  "proxy.Proxy handshake + status session handlers, newInitialPing, netmc, codec",
		Model: "raw status client on mcpeer wire codec; concurrent login clients; sequential status-phase model"})
}

func runC43(r *Run) {
	w := newClassic(r, []string{"lobby"}, nil)
	proxyEvents(w)
	protChoices := []int32{int32(version.Minecraft_1_20_2.Protocol), int32(version.Minecraft_1_8.Protocol), int32(version.MaximumVersion.Protocol), 999, 5000, -1, 0, 3, int32(version.Minecraft_1_16_4.Protocol),
		// numbers between supported versions (the table is sparse)
		6, 48, 100, 500, int32(version.MaximumVersion.Protocol) - 1, int32(version.Minecraft_1_7_2.Protocol)}
	p := protChoices[r.W.Pick(len(protChoices))]
	supported := version.Protocol(p).Supported()
	wantProt := int(p)
	if !supported {
		wantProt = int(version.MaximumVersion.Protocol)
	}
	// concurrent players
	nPlayers := r.W.Pick(3)
	for i := 0; i < nPlayers; i++ {
		stay := time.Duration(1+r.W.Pick(100)) * time.Millisecond
		delay := time.Duration(r.W.Pick(20)) * time.Millisecond
		w.addClient(fmt.Sprintf("Player%d", i), version.Minecraft_1_20.Protocol, func(c *clientModel) {
			simrt.Sleep(delay, "c43.delay")
			if c.Login() {
				c.StartReader()
				simrt.Sleep(stay, "c43.stay")
			}
			c.Close()
		})
	}
	// player count window
	minCount, maxCount := 1<<30, -1
	sample := func() {
		simrt.DriverCall(func() {
			n := w.p.PlayerCount()
			if n < minCount {
				minCount = n
			}
			if n > maxCount {
				maxCount = n
			}
		})
	}
	sampling := false
	w.s.OnStep = func() {
		if sampling {
			sample()
		}
	}

	ops := make([]int, 1+r.W.Pick(4))
	for i := range ops {
		ops[i] = r.W.Pick(6) // 0,1 request; 2,3 ping; 4 unknown id; 5 login start
	}
	type obs struct {
		kind    string
		payload []byte
	}
	var got []obs
	var sent []obs
	eofSeen := false
	done := false
	cl, gate := w.r.Pipe("status-client", "gate<status", simnet.Options{Seg: w.seg, AddrA: simnet.TCP("172.20.0.9", 50000), AddrB: simnet.TCP("10.0.0.1", 25565)})
	w.s.GoNamed("handleconn-status", func() { w.p.HandleConn(gate) })
	w.s.GoNamed("status-client", func() {
		defer func() { done = true }()
		hs := (&mcpeer.W{}).VarInt(0).VarInt(p).String("play.example.com").U16(25565).VarInt(1)
		_, _ = cl.Write(mcpeer.Frame(hs.B, -1, 0))
		sampling = true
		sample()
		for i, op := range ops {
			var payload []byte
			switch op {
			case 0, 1:
				payload = []byte{0x00}
				sent = append(sent, obs{"request", nil})
				r.Op("request")
			case 2, 3:
				b := make([]byte, 8)
				r.W.Bytes(b)
				payload = append([]byte{0x01}, b...)
				switch r.W.Pick(4) {
				case 2: // bytes behind the long: still to be echoed as they came
					payload = append(payload, 0xAA, 0xBB)
					r.Op("ping-with-trailing-bytes")
				case 3: // the packet id as a two-byte VarInt
					payload = append([]byte{0x81, 0x00}, b...)
					r.Op("ping-with-long-id")
				default:
					r.Op("ping")
				}
				sent = append(sent, obs{"ping", payload})
			case 4:
				payload = []byte{0x05, 0x01, 0x02}
				sent = append(sent, obs{"unknown", nil})
				r.Op("unknown-id")
			case 5:
				payload = (&mcpeer.W{}).VarInt(0).String("Mallory").B // login start in status state: id 0 = request with trailing bytes
				sent = append(sent, obs{"request-with-garbage", nil})
				r.Op("request-with-trailing-bytes")
			}
			if _, err := cl.Write(mcpeer.Frame(payload, -1, 0)); err != nil {
				break
			}
			if i < len(ops)-1 && r.W.Pick(2) == 0 {
				simrt.Sleep(time.Duration(1+r.W.Pick(10))*time.Millisecond, "c43.gap")
			}
		}
		fr := mcpeer.NewFrameReader()
		buf := make([]byte, 4096)
		_ = cl.SetReadDeadline(time.Now().Add(3 * time.Second))
		for {
			n, err := cl.Read(buf)
			if n > 0 {
				fr.Feed(buf[:n])
				for {
					pl, e := fr.Next()
					if e != nil {
						break
					}
					b := mcpeer.NewBuf(pl)
					switch id := b.VarInt(); id {
					case 0:
						got = append(got, obs{"response", []byte(b.String())})
						sample()
						sampling = false
					case 1:
						got = append(got, obs{"pong", append([]byte(nil), pl...)}) // the whole payload, id included
					default:
						got = append(got, obs{fmt.Sprintf("id%d", id), nil})
					}
				}
			}
			if err != nil {
				eofSeen = !simnet.IsTimeout(err)
				return
			}
		}
	})
	why := w.s.RunUntil(20*time.Second, func() bool { return done && w.allClientsDone() })
	if why == "steps" {
		r.Inconclusive("step budget exhausted")
		return
	}
	if r.CheckDeadlock() {
		return
	}
	// sequential model
	var want []obs
	requested := false
	closes := false
	for _, s := range sent {
		if closes {
			break
		}
		switch s.kind {
		case "request":
			if requested {
				closes = true
			} else {
				requested = true
				want = append(want, obs{"response", nil})
			}
		case "ping":
			want = append(want, obs{"pong", s.payload})
			closes = true
		case "request-with-garbage":
			// id 0 with trailing bytes: a (malformed) request; the property only says "any other
			// ... request closes the connection" - either a response or a close is acceptable, so
			// stop comparing here
			want = append(want, obs{"dontcare", nil})
			closes = true
		default:
			closes = true
		}
	}
	desc := func() string {
		var s, g []string
		for _, o := range sent {
			s = append(s, o.kind)
		}
		for _, o := range got {
			g = append(g, o.kind)
		}
		return fmt.Sprintf("handshake protocol %d; sent %v; received %v; eof=%v", p, s, g, eofSeen)
	}
	for i, wv := range want {
		if wv.kind == "dontcare" {
			return
		}
		if i >= len(got) {
			r.Fail("status-reply-missing", wv.kind, "expected a %s that never came: %s", wv.kind, desc())
			return
		}
		g := got[i]
		if g.kind != wv.kind {
			r.Fail("status-reply-wrong", wv.kind, "expected %s, got %s: %s", wv.kind, g.kind, desc())
			return
		}
		if wv.kind == "pong" && !bytes.Equal(g.payload, wv.payload) {
			r.Fail("ping-echo-differs", "pong", "ping payload %x echoed as %x: %s", wv.payload, g.payload, desc())
			return
		}
		if wv.kind == "response" {
			var js struct {
				Version struct {
					Protocol int    `json:"protocol"`
					Name     string `json:"name"`
				} `json:"version"`
				Players struct {
					Online *int `json:"online"`
					Max    int  `json:"max"`
				} `json:"players"`
				Description json.RawMessage `json:"description"`
			}
			if err := json.Unmarshal(g.payload, &js); err != nil {
				r.Fail("status-json-malformed", "json", "status response is not well-formed JSON (%v): %.200s", err, g.payload)
				return
			}
			if js.Version.Protocol != wantProt {
				r.Fail("status-protocol-wrong", fmt.Sprintf("supported=%v", supported), "client protocol %d (supported=%v): response advertises %d, want %d", p, supported, js.Version.Protocol, wantProt)
				return
			}
			if js.Players.Online == nil || *js.Players.Online < minCount || *js.Players.Online > maxCount {
				on := -1
				if js.Players.Online != nil {
					on = *js.Players.Online
				}
				r.Fail("status-player-count-wrong", "count", "players.online=%d but the player count stayed within [%d,%d] between request and response: %s", on, minCount, maxCount, desc())
				return
			}
		}
	}
	if len(got) > len(want) {
		r.Fail("status-extra-reply", got[len(want)].kind, "received more replies than the protocol allows: %s", desc())
		return
	}
	if closes && !eofSeen {
		r.Fail("status-not-closed", "close", "the connection should have been closed by the proxy: %s", desc())
		return
	}
	r.State(desc())
	r.Res.Sample = map[string]any{"handshake_protocol": p, "sent": len(sent), "received": len(got), "players_window": []int{minCount, maxCount}}
}
