package worlds

import (
	"encoding/binary"
	"fmt"
	"net"
	"strings"
	"time"

	"go.minekube.com/gate/pkg/edition/java/config"
	"go.minekube.com/gate/pkg/edition/java/proxy"
	"go.minekube.com/gate/pkg/util/configutil"
	"go.minekube.com/gate/pkg/zzverif/simnet"
	"go.minekube.com/gate/pkg/zzverif/simrt"
)

// C33 — PROXY protocol headers are honoured only from trusted upstreams.
//
// Real proxy with proxyProtocol enabled and a tape-generated trusted list (IPs, CIDRs,
// invalid entries which the constructor must reject). Peers with generated addresses (v4,
// v6, v4-mapped, zoned) connect through the accept-path wrapping and send a v1 / v2 header
// or none, possibly split across segments or after a stall, then log in. Oracle: the address
// the login sees = header source iff the peer is in the trusted networks (reference CIDR
// membership with unmap / zone normalisation); a header from an untrusted peer fails the
// connection before any packet is handled; no header => the peer's own address.
func init() {
	Register(&Scenario{Prop: "C33", Desc: "PROXY protocol honoured only from trusted upstreams", Run: runC33,
		Quick: 600, Thorough: 100000,
		Real:  "proxy.newProxyProtocol / wrapConn (go-proxyproto policy), netutil.ParseTrustedNetworks/Contains, Proxy.HandleConn login path",
		Model: "peer actor with generated address and header bytes; reference CIDR membership"})
}

type c33trust struct {
	entries []string
	valid   bool
}

func refTrusted(entries []string, peer net.IP) bool {
	p := peer
	if v4 := p.To4(); v4 != nil {
		p = v4
	}
	for _, e := range entries {
		e = strings.TrimSpace(e)
		if strings.Contains(e, "/") {
			_, n, err := net.ParseCIDR(e)
			if err != nil {
				continue
			}
			if n.Contains(p) {
				return true
			}
		} else if ip := net.ParseIP(e); ip != nil && ip.Equal(p) {
			return true
		}
	}
	return false
}

func runC33(r *Run) {
	lists := []c33trust{
		{[]string{"10.0.0.0/8"}, true},
		{[]string{"192.168.1.5"}, true},
		{[]string{"2001:db8::/32", "172.16.0.0/12"}, true},
		{[]string{"10.1.2.3", " 10.9.0.0/16 "}, true},
		{[]string{"::ffff:10.0.0.0/104"}, false}, // IPv4-mapped CIDR must be rejected
		{[]string{"notanip"}, false},
		{[]string{"10.0.0.0/33"}, false},
		{[]string{"10.0.0.1/8"}, true}, // host bits set: a valid CIDR, masked
		{[]string{"fe80::1"}, true},
		// IPv4-mapped forms, whatever the prefix length or spelling
		{[]string{"::ffff:10.0.0.0/8"}, false},
		{[]string{"::ffff:10.0.0.0/40"}, false},
		{[]string{"::ffff:192.168.0.0/95"}, false},
		{[]string{"::ffff:10.0.0.0/96"}, false},
		{[]string{"::ffff:10.1.2.3"}, false},
		{[]string{"10.0.0.0/8", "::ffff:a00:0/64"}, false},
		// nothing configured (nil, or an explicitly empty list): the documented defaults apply
		{nil, true},
		{[]string{}, true},
	}
	tl := lists[r.W.Pick(len(lists))]
	refEntries := tl.entries
	if len(refEntries) == 0 {
		// config.yml: "Defaults to the loopback, private and link-local networks ..."
		refEntries = []string{"127.0.0.0/8", "::1/128", "10.0.0.0/8", "172.16.0.0/12", "192.168.0.0/16", "169.254.0.0/16", "fc00::/7", "fe80::/10"}
	}
	cfg := config.DefaultConfig
	cfg.OnlineMode = false
	cfg.ProxyProtocol = true
	cfg.ProxyProtocolTrustedProxies = tl.entries
	cfg.Quota.Connections.Enabled = false
	cfg.Quota.Logins.Enabled = false
	cfg.ConnectionTimeout = configutil.Duration(5 * time.Microsecond)
	cfg.ReadTimeout = configutil.Duration(30 * time.Microsecond)
	s := r.NewSim(400000)
	ev := newSimEvent()
	p, err := proxy.New(proxy.Options{Config: &cfg, EventMgr: ev})
	if !tl.valid {
		r.Op("invalid-trusted-list")
		if err == nil {
			r.Fail("invalid-trusted-entry-accepted", "parse", "proxy.New accepted the trusted list %q, which contains an entry that is not a valid IP/CIDR (or is an IPv4-mapped CIDR)", tl.entries)
		}
		r.State("invalid:" + strings.Join(tl.entries, ","))
		// keep the run non-trivial for the evidence counters
		done := false
		s.GoNamed("noop", func() { simrt.Yield("c33.noop"); done = true })
		s.RunUntil(time.Second, func() bool { return done })
		return
	}
	if err != nil {
		r.Fail("valid-trusted-entry-rejected", "parse", "proxy.New rejected the valid trusted list %q: %v", tl.entries, err)
		return
	}
	peers := []struct {
		ip   string
		zone string
	}{{"10.1.2.3", ""}, {"192.168.1.5", ""}, {"192.168.1.6", ""}, {"::ffff:10.7.7.7", ""}, {"2001:db8:5::1", ""}, {"2001:db9::1", ""}, {"203.0.113.9", ""}, {"fe80::1", "eth0"}, {"172.20.1.1", ""}, {"10.9.3.3", ""}, {"::1", ""}, {"127.0.0.1", ""}, {"fd00::5", ""}, {"100::1", ""}}
	pe := peers[r.W.Pick(len(peers))]
	peerIP := net.ParseIP(pe.ip)
	trusted := refTrusted(refEntries, peerIP)
	headerKind := r.W.Pick(4) // 0 none, 1 v1, 2 v2, 3 v1
	srcIP, srcPort := "198.51.100.23", 51111
	var header []byte
	switch headerKind {
	case 1, 3:
		header = []byte(fmt.Sprintf("PROXY TCP4 %s 10.0.0.1 %d 25565\r\n", srcIP, srcPort))
	case 2:
		header = append([]byte("\r\n\r\n\x00\r\nQUIT\n"), 0x21, 0x11, 0, 12)
		header = append(header, net.ParseIP(srcIP).To4()...)
		header = append(header, net.ParseIP("10.0.0.1").To4()...)
		header = binary.BigEndian.AppendUint16(header, uint16(srcPort))
		header = binary.BigEndian.AppendUint16(header, 25565)
	}
	var seenAddr string
	preLogins := 0
	proxyEventsFor(ev, func(e *proxy.PreLoginEvent) {
		preLogins++
		seenAddr = e.Conn().RemoteAddr().String()
	})
	// Whole-segment delivery; the header is split explicitly below. (Observation, outside
	// the property: go-proxyproto's v1 parser rejects a header that arrives byte by byte,
	// so byte-wise segmentation of the header would fail trusted peers in the dependency.)
	cl, gate := r.Pipe("peer", "gate<peer", simnet.Options{Seg: simnet.SegWhole, AddrA: &net.TCPAddr{IP: peerIP, Port: 40123, Zone: pe.zone}, AddrB: simnet.TCP("10.0.0.1", 25565)})
	s.GoNamed("handleconn", func() { p.HandleConn(p.VerifWrapProxyProtocol(gate)) })
	stall := r.F.Pick(4) == 3
	done := false
	eof := false
	s.GoNamed("peer", func() {
		defer func() { done = true }()
		r.Op(fmt.Sprintf("connect:header=%d", headerKind))
		if len(header) > 0 {
			k := len(header)
			// (go-proxyproto deliberately refuses a v1 header that is not available in one
			// read, so only binary v2 headers are split across segments)
			if headerKind == 2 && r.F.Pick(2) == 1 {
				k = 16 + r.F.Pick(len(header)-16)
				r.Fault("header_split")
			}
			_, _ = cl.Write(header[:k])
			if stall {
				r.Fault("stall_inside_header")
				simrt.Sleep(time.Duration(1+r.F.Pick(3000))*time.Millisecond, "c33.stall")
			}
			if k < len(header) {
				_, _ = cl.Write(header[k:])
			}
		} else if stall {
			r.Fault("stall_before_first_byte")
			simrt.Sleep(time.Duration(1+r.F.Pick(3000))*time.Millisecond, "c33.stall")
		}
		_, _ = cl.Write(handshakeFrame(763, "play.example.com", 25565, 2))
		_, _ = cl.Write(frameOf(loginStartPayload(763, "Peer", offlineUUID("Peer"))))
		buf := make([]byte, 4096)
		_ = cl.SetReadDeadline(time.Now().Add(8 * time.Second))
		for {
			_, err := cl.Read(buf)
			if err != nil {
				eof = !simnet.IsTimeout(err)
				return
			}
			if preLogins > 0 {
				return
			}
		}
	})
	why := s.RunUntil(60*time.Second, func() bool { return done })
	if why == "steps" {
		r.Inconclusive("step budget exhausted")
		return
	}
	own := (&net.TCPAddr{IP: peerIP, Port: 40123, Zone: pe.zone}).String()
	desc := fmt.Sprintf("trusted-list=%q peer=%s trusted=%v header=%d seen=%q prelogins=%d eof=%v", tl.entries, own, trusted, headerKind, seenAddr, preLogins, eof)
	switch {
	case headerKind == 0:
		if preLogins != 1 || hostOf(seenAddr) != hostOf(own) {
			r.Fail("own-address-not-kept", "noheader", "no PROXY header was sent: the login must see the peer's own address: %s", desc)
			return
		}
	case trusted:
		want := fmt.Sprintf("%s:%d", srcIP, srcPort)
		if preLogins != 1 || seenAddr != want {
			r.Fail("trusted-header-not-honoured", "trusted", "peer is in the trusted networks and sent a header for %s: %s", want, desc)
			return
		}
	default:
		if preLogins != 0 {
			sig := "untrusted"
			if seenAddr == fmt.Sprintf("%s:%d", srcIP, srcPort) {
				sig = "untrusted-spoofed"
			}
			r.Fail("untrusted-header-accepted", sig, "a PROXY header from an untrusted peer must fail the connection before any packet is handled: %s", desc)
			return
		}
	}
	r.State(fmt.Sprintf("%v|%s|%d|%v", tl.entries, pe.ip, headerKind, trusted))
	r.Res.Sample = map[string]any{"trusted_list": tl.entries, "peer": own, "trusted": trusted, "header": headerKind, "seen": seenAddr}
}

func frameOf(payload []byte) []byte {
	out := []byte{}
	n := len(payload)
	for n >= 0x80 {
		out = append(out, byte(n)|0x80)
		n >>= 7
	}
	out = append(out, byte(n))
	return append(out, payload...)
}
