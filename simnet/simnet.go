// Package simnet is the in-memory transport of the simulation: full-duplex byte streams
// implementing net.Conn whose segmentation, back-pressure, stalls, EOF, reset and write
// failures are decided by the run's fault tape. Blocking is done through simrt.Block, so a
// blocked reader/writer is an ordinary parked simulated goroutine and the scheduler decides
// when (and in which chunks) bytes become visible.
package simnet

import (
	"errors"
	"io"
	"net"
	"os"
	"sync"
	"syscall"
	"time"

	"go.minekube.com/gate/pkg/zzverif/simrt"
)

type SegMode int

const (
	SegWhole  SegMode = iota // a Read gets everything that is queued (up to len(p))
	SegRandom                // a Read gets 1..n bytes, cut anywhere (tape)
	SegByte                  // a Read gets exactly one byte
)

// Stats counts what actually fired.
type Stats struct {
	Reads, Writes       int
	ShortReads          int // reads that returned fewer bytes than were available and asked for
	BackPressureBlocks  int
	ReadTimeouts        int
	WriteTimeouts       int
	Resets, EOFs        int
	WriteFailures       int
	Stalls              int
	BytesMoved          int64
	CutEOF, CutRST      int
	DialRefused, DialOK int
}

type half struct {
	buf       []byte
	eof       bool // writer closed; reader gets EOF after draining
	rst       bool
	window    int
	written   int64 // bytes accepted from the writer
	delivered int64 // bytes handed to the reader
	cutAt     int64 // <0: none; bytes beyond are never delivered; at cutAt the reader sees EOF/RST
	cutRST    bool
	cutDone   bool
	stall     time.Time // reader sees nothing before this instant
}

type Options struct {
	Seg      SegMode
	Tape     *simrt.Tape // fault tape (segmentation cuts)
	Window   int         // bytes in flight per direction; 0 = 1 MiB
	Stats    *Stats
	AddrA    net.Addr // address of endpoint A (B's RemoteAddr)
	AddrB    net.Addr
	NameA    string
	NameB    string
}

type Conn struct {
	mu     *sync.Mutex
	name   string
	in     *half
	out    *half
	peer   *Conn
	local  net.Addr
	remote net.Addr
	rdl    time.Time
	wdl    time.Time
	closed bool
	seg    SegMode
	tape   *simrt.Tape
	st     *Stats
	// FailWriteAt: the Write that would carry the total of written bytes beyond this value
	// accepts the prefix and fails; the connection is reset. <0: never.
	failWriteAt int64
	// Log of bytes, if enabled.
	RecvLog []byte
	KeepLog bool
}

var dummyStats Stats

func TCP(ip string, port int) *net.TCPAddr { return &net.TCPAddr{IP: net.ParseIP(ip), Port: port} }

// Pipe creates a connected pair.
func Pipe(o Options) (a, b *Conn) {
	if o.Window <= 0 {
		o.Window = 1 << 20
	}
	if o.Stats == nil {
		o.Stats = &dummyStats
	}
	if o.AddrA == nil {
		o.AddrA = TCP("10.1.0.1", 40000)
	}
	if o.AddrB == nil {
		o.AddrB = TCP("10.2.0.1", 25565)
	}
	mu := new(sync.Mutex)
	ab := &half{window: o.Window, cutAt: -1} // a -> b
	ba := &half{window: o.Window, cutAt: -1} // b -> a
	a = &Conn{mu: mu, name: o.NameA, in: ba, out: ab, local: o.AddrA, remote: o.AddrB, seg: o.Seg, tape: o.Tape, st: o.Stats, failWriteAt: -1}
	b = &Conn{mu: mu, name: o.NameB, in: ab, out: ba, local: o.AddrB, remote: o.AddrA, seg: o.Seg, tape: o.Tape, st: o.Stats, failWriteAt: -1}
	a.peer, b.peer = b, a
	return
}

type timeoutErr struct{ op string }

func (e timeoutErr) Error() string   { return "simnet: " + e.op + " i/o timeout" }
func (e timeoutErr) Timeout() bool   { return true }
func (e timeoutErr) Temporary() bool { return true }
func (e timeoutErr) Is(t error) bool { return t == os.ErrDeadlineExceeded }

func opErr(op string, err error) error {
	return &net.OpError{Op: op, Net: "tcp", Err: err}
}

var errReset = os.NewSyscallError("read", syscall.ECONNRESET)
var errPipe = os.NewSyscallError("write", syscall.EPIPE)

func (c *Conn) Name() string { return c.name }

func (c *Conn) block(site string, pred func() bool, wakeAt time.Time) {
	if !simrt.Block(site, func() bool {
		c.mu.Lock()
		defer c.mu.Unlock()
		return pred()
	}, wakeAt) {
		time.Sleep(200 * time.Microsecond)
	}
}

func earliest(a, b time.Time) time.Time {
	if a.IsZero() {
		return b
	}
	if b.IsZero() || a.Before(b) {
		return a
	}
	return b
}

func (c *Conn) readableLocked(now time.Time) bool {
	h := c.in
	if c.closed || h.rst {
		return true
	}
	if !h.stall.IsZero() && now.Before(h.stall) {
		return false
	}
	if len(h.buf) > 0 || h.eof {
		return true
	}
	if h.cutAt >= 0 && h.delivered >= h.cutAt {
		return true
	}
	return false
}

func (c *Conn) Read(p []byte) (int, error) {
	for {
		c.mu.Lock()
		now := time.Now()
		h := c.in
		switch {
		case c.closed:
			c.mu.Unlock()
			return 0, opErr("read", net.ErrClosed)
		case h.rst:
			c.mu.Unlock()
			return 0, opErr("read", errReset)
		}
		stalled := !h.stall.IsZero() && now.Before(h.stall)
		if !stalled {
			if h.cutAt >= 0 && h.delivered >= h.cutAt {
				// the peer died at this byte
				if !h.cutDone {
					h.cutDone = true
					if h.cutRST {
						c.st.CutRST++
						h.rst = true
						c.out.rst = true
						c.out.buf = nil
						c.mu.Unlock()
						return 0, opErr("read", errReset)
					}
					c.st.CutEOF++
				}
				if h.cutRST {
					c.mu.Unlock()
					return 0, opErr("read", errReset)
				}
				c.mu.Unlock()
				return 0, io.EOF
			}
			if len(h.buf) > 0 {
				if len(p) == 0 {
					c.mu.Unlock()
					return 0, nil
				}
				n := len(h.buf)
				if n > len(p) {
					n = len(p)
				}
				if h.cutAt >= 0 && int64(n) > h.cutAt-h.delivered {
					n = int(h.cutAt - h.delivered)
				}
				full := n
				switch c.seg {
				case SegByte:
					n = 1
				case SegRandom:
					if c.tape != nil && n > 1 {
						// 0 => whole segment
						switch c.tape.Pick(4) {
						case 0:
						case 1:
							n = 1
						default:
							n = 1 + c.tape.Pick(n)
						}
					}
				}
				if n < full {
					c.st.ShortReads++
				}
				copy(p, h.buf[:n])
				if c.KeepLog {
					c.RecvLog = append(c.RecvLog, h.buf[:n]...)
				}
				h.buf = h.buf[n:]
				if len(h.buf) == 0 {
					h.buf = nil
				}
				h.delivered += int64(n)
				c.st.Reads++
				c.st.BytesMoved += int64(n)
				c.mu.Unlock()
				return n, nil
			}
			if h.eof {
				c.st.EOFs++
				c.mu.Unlock()
				return 0, io.EOF
			}
		}
		if !c.rdl.IsZero() && !now.Before(c.rdl) {
			c.st.ReadTimeouts++
			c.mu.Unlock()
			return 0, opErr("read", timeoutErr{"read"})
		}
		wake := earliest(c.rdl, h.stall)
		c.mu.Unlock()
		c.block("simnet.Read:"+c.name, func() bool {
			n := time.Now()
			return c.readableLocked(n) || (!c.rdl.IsZero() && !n.Before(c.rdl))
		}, wake)
	}
}

func (c *Conn) Write(p []byte) (int, error) {
	off := 0
	blocked := false
	for {
		c.mu.Lock()
		now := time.Now()
		h := c.out
		switch {
		case c.closed:
			c.mu.Unlock()
			return off, opErr("write", net.ErrClosed)
		case h.rst:
			c.mu.Unlock()
			return off, opErr("write", errReset)
		case c.peer.closed:
			c.mu.Unlock()
			return off, opErr("write", errPipe)
		}
		if off == len(p) {
			c.st.Writes++
			c.mu.Unlock()
			return off, nil
		}
		room := h.window - len(h.buf)
		if h.cutAt >= 0 && h.written >= h.cutAt {
			room = len(p) - off // bytes beyond the cut vanish
		}
		if room > 0 {
			n := len(p) - off
			if n > room {
				n = room
			}
			if c.failWriteAt >= 0 && h.written+int64(n) > c.failWriteAt {
				n = int(c.failWriteAt - h.written)
				if n < 0 {
					n = 0
				}
				c.appendOut(h, p[off:off+n])
				off += n
				c.st.WriteFailures++
				h.rst = true
				c.in.rst = true
				c.in.buf = nil
				c.mu.Unlock()
				return off, opErr("write", errPipe)
			}
			c.appendOut(h, p[off:off+n])
			off += n
			c.mu.Unlock()
			continue
		}
		if !c.wdl.IsZero() && !now.Before(c.wdl) {
			c.st.WriteTimeouts++
			c.mu.Unlock()
			return off, opErr("write", timeoutErr{"write"})
		}
		if !blocked {
			blocked = true
			c.st.BackPressureBlocks++
		}
		wake := c.wdl
		c.mu.Unlock()
		c.block("simnet.Write:"+c.name, func() bool {
			return c.closed || c.peer.closed || h.rst || len(h.buf) < h.window || (!c.wdl.IsZero() && !time.Now().Before(c.wdl))
		}, wake)
	}
}

func (c *Conn) appendOut(h *half, b []byte) {
	if h.cutAt >= 0 {
		keep := h.cutAt - h.written
		if keep < 0 {
			keep = 0
		}
		if int64(len(b)) > keep {
			h.written += int64(len(b))
			h.buf = append(h.buf, b[:keep]...)
			return
		}
	}
	h.written += int64(len(b))
	h.buf = append(h.buf, b...)
}

// Close closes this endpoint: the peer reads EOF after draining what was already written.
func (c *Conn) Close() error {
	c.mu.Lock()
	defer c.mu.Unlock()
	if c.closed {
		return opErr("close", net.ErrClosed)
	}
	c.closed = true
	c.out.eof = true
	c.in.buf = nil
	return nil
}

// CloseWrite half-closes: peer reads EOF after draining; reading continues.
func (c *Conn) CloseWrite() error {
	c.mu.Lock()
	defer c.mu.Unlock()
	c.out.eof = true
	return nil
}

// Reset aborts the connection in both directions, discarding queued data.
func (c *Conn) Reset() {
	c.mu.Lock()
	defer c.mu.Unlock()
	c.st.Resets++
	c.in.rst, c.out.rst = true, true
	c.in.buf, c.out.buf = nil, nil
}

// DieAfterSending makes this endpoint "crash" after it has sent n more bytes... precisely:
// the peer receives exactly the first n bytes (counted from the beginning of the stream)
// written by this endpoint and then EOF (rst=false) or a reset (rst=true); in the reset
// case this endpoint's own writes/reads fail as well once the peer noticed.
func (c *Conn) DieAfterSending(n int64, rst bool) {
	c.mu.Lock()
	defer c.mu.Unlock()
	c.out.cutAt, c.out.cutRST = n, rst
}

// FailWriteAt arranges for the write crossing stream offset n to fail after the prefix.
func (c *Conn) FailWriteAt(n int64) {
	c.mu.Lock()
	defer c.mu.Unlock()
	c.failWriteAt = n
}

// StallIncoming hides incoming bytes from the reader until t.
func (c *Conn) StallIncoming(t time.Time) {
	c.mu.Lock()
	defer c.mu.Unlock()
	c.st.Stalls++
	c.in.stall = t
}

// SetSeg changes the segmentation mode of reads on this endpoint.
func (c *Conn) SetSeg(m SegMode) {
	c.mu.Lock()
	defer c.mu.Unlock()
	c.seg = m
}

// SetWindow changes the number of bytes this endpoint may have in flight.
func (c *Conn) SetWindow(n int) {
	c.mu.Lock()
	defer c.mu.Unlock()
	c.out.window = n
}

func (c *Conn) Written() int64 {
	c.mu.Lock()
	defer c.mu.Unlock()
	return c.out.written
}

func (c *Conn) Received() int64 {
	c.mu.Lock()
	defer c.mu.Unlock()
	return c.in.delivered
}

// Pending returns the number of bytes queued toward this endpoint.
func (c *Conn) Pending() int {
	c.mu.Lock()
	defer c.mu.Unlock()
	return len(c.in.buf)
}

func (c *Conn) IsClosed() bool {
	c.mu.Lock()
	defer c.mu.Unlock()
	return c.closed
}

// PeerGone reports whether the other side closed or the link was reset.
func (c *Conn) PeerGone() bool {
	c.mu.Lock()
	defer c.mu.Unlock()
	return c.peer.closed || c.in.rst
}

func (c *Conn) LocalAddr() net.Addr  { return c.local }
func (c *Conn) RemoteAddr() net.Addr { return c.remote }

func (c *Conn) SetDeadline(t time.Time) error {
	c.mu.Lock()
	defer c.mu.Unlock()
	if c.closed {
		return opErr("set", net.ErrClosed)
	}
	c.rdl, c.wdl = t, t
	return nil
}
func (c *Conn) SetReadDeadline(t time.Time) error {
	c.mu.Lock()
	defer c.mu.Unlock()
	if c.closed {
		return opErr("set", net.ErrClosed)
	}
	c.rdl = t
	return nil
}
func (c *Conn) SetWriteDeadline(t time.Time) error {
	c.mu.Lock()
	defer c.mu.Unlock()
	if c.closed {
		return opErr("set", net.ErrClosed)
	}
	c.wdl = t
	return nil
}

var _ net.Conn = (*Conn)(nil)

// ErrRefused is returned by simulated dials that are refused.
var ErrRefused = &net.OpError{Op: "dial", Net: "tcp", Err: os.NewSyscallError("connect", syscall.ECONNREFUSED)}

// IsTimeout helper.
func IsTimeout(err error) bool {
	var ne net.Error
	return errors.As(err, &ne) && ne.Timeout()
}
