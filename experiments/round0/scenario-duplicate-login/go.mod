module h

go 1.26

require (
	github.com/go-logr/logr v1.4.3
	github.com/robinbraemer/event v0.1.1
	go.minekube.com/gate v0.0.0
	verif.local/simrt v0.0.0
)

require (
	github.com/Tnze/go-mc v1.20.2 // indirect
	github.com/agext/levenshtein v1.2.3 // indirect
	github.com/cespare/xxhash/v2 v2.3.0 // indirect
	github.com/davecgh/go-spew v1.1.2-0.20180830191138-d8f796af33cc // indirect
	github.com/dboslee/lru v0.0.1 // indirect
	github.com/ebitengine/purego v0.10.2 // indirect
	github.com/edwingeng/deque/v2 v2.1.1 // indirect
	github.com/emirpasic/gods v1.18.1 // indirect
	github.com/felixge/httpsnoop v1.0.4 // indirect
	github.com/francoispqt/gojay v1.2.13 // indirect
	github.com/fsnotify/fsnotify v1.9.0 // indirect
	github.com/gammazero/deque v1.2.1 // indirect
	github.com/go-logr/stdr v1.2.2 // indirect
	github.com/golang/groupcache v0.0.0-20241129210726-2c02b8208cf8 // indirect
	github.com/google/uuid v1.6.0 // indirect
	github.com/jellydator/ttlcache/v3 v3.4.1 // indirect
	github.com/lucasb-eyer/go-colorful v1.4.0 // indirect
	github.com/nfnt/resize v0.0.0-20180221191011-83c6a9932646 // indirect
	github.com/pires/go-proxyproto v0.13.0 // indirect
	github.com/segmentio/fasthash v1.0.3 // indirect
	github.com/zyedidia/generic v1.2.1 // indirect
	go.minekube.com/brigodier v0.0.2 // indirect
	go.minekube.com/common v0.4.0 // indirect
	go.minekube.com/vialite v0.3.0 // indirect
	go.opentelemetry.io/auto/sdk v1.2.1 // indirect
	go.opentelemetry.io/contrib/instrumentation/net/http/otelhttp v0.69.0 // indirect
	go.opentelemetry.io/otel v1.44.0 // indirect
	go.opentelemetry.io/otel/metric v1.44.0 // indirect
	go.opentelemetry.io/otel/trace v1.44.0 // indirect
	go.uber.org/atomic v1.11.0 // indirect
	golang.org/x/exp v0.0.0-20260611194520-c48552f49976 // indirect
	golang.org/x/sync v0.21.0 // indirect
	golang.org/x/sys v0.45.0 // indirect
	golang.org/x/text v0.38.0 // indirect
	golang.org/x/time v0.14.0 // indirect
	gopkg.in/yaml.v3 v3.0.1 // indirect
)

replace go.minekube.com/gate => /repo

replace verif.local/simrt => /tmp/proto/simrt
