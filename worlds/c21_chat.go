package worlds

import (
	"fmt"
	"strings"
	"time"

	"github.com/robinbraemer/event"
	"go.minekube.com/brigodier"
	"go.minekube.com/gate/pkg/command"
	"go.minekube.com/gate/pkg/edition/java/config"
	"go.minekube.com/gate/pkg/edition/java/proto/packet/chat"
	"go.minekube.com/gate/pkg/edition/java/proto/version"
	"go.minekube.com/gate/pkg/edition/java/proxy"
	gproto "go.minekube.com/gate/pkg/gate/proto"
	"go.minekube.com/gate/pkg/zzverif/simrt"
)

// C21 — secure-chat packets keep the client's order and conserve acknowledgements.
// C22 — commands run on the proxy or reach the backend exactly once.
//
// One player in play on one backend; proxy commands registered with per-command permission
// requirements and handlers that complete after tape-chosen simulated delays; a
// CommandExecuteEvent subscriber deciding allow / deny / forward / modify per command line
// from the tape. The client sends a tape-generated sequence over {chat, signed command,
// command without signatures, UnsignedPlayerCommand (1.20.5+), acknowledgement(offset)},
// either pipelined or waiting for quiescence after each packet ("stepwise", which makes the
// acknowledgement lag observable per packet). The backend model records every serverbound
// chat packet in arrival order.
func init() {
	Register(&Scenario{Prop: "C21", Desc: "secure chat: client order kept, acknowledgements conserved", Run: func(r *Run) { runChat(r, true) },
		Quick: 400, Thorough: 60000,
		Real:  "proxy.Proxy: clientPlaySessionHandler chat/command dispatch, chatHandler, chatQueue/ChatState, command.Manager, codec",
		Model: "client actor (session chat packets with last-seen offsets), backend recorder, event subscriber + proxy command handlers with simulated delays"})
	Register(&Scenario{Prop: "C22", Desc: "commands: proxy executes or backend receives, exactly once", Run: func(r *Run) { runChat(r, false) },
		Quick: 400, Thorough: 60000,
		Real:  "proxy.Proxy: clientPlaySessionHandler chat/command dispatch, chatHandler (legacy, keyed, session, unsigned), chatQueue, command.Manager, codec",
		Model: "client actor for four protocol families, backend recorder, event subscriber + proxy command handlers with simulated delays"})
}

type chatOp struct {
	kind            string // chat, cmd-signed, cmd, cmd-unsigned, ack
	text            string
	offset          int
	outcome         string // allow, deny, forward, modify (commands only)
	newText         string // for modify
	unsignedRebuild bool   // 1.20.5+: a rewritten command is rebuilt as an unsigned command (no last-seen update)
}

func runChat(r *Run, ackFocus bool) {
	var prots []gproto.Protocol
	if ackFocus {
		prots = []gproto.Protocol{version.Minecraft_1_19_3.Protocol, version.Minecraft_1_20.Protocol, version.Minecraft_1_20_2.Protocol, version.Minecraft_1_20_3.Protocol, version.Minecraft_1_20_5.Protocol, version.Minecraft_1_21.Protocol, version.Minecraft_1_21_4.Protocol}
	} else {
		prots = []gproto.Protocol{version.Minecraft_1_8.Protocol, version.Minecraft_1_18_2.Protocol, version.Minecraft_1_19.Protocol, version.Minecraft_1_19_1.Protocol, version.Minecraft_1_19_3.Protocol, version.Minecraft_1_20_2.Protocol, version.Minecraft_1_20_5.Protocol, version.Minecraft_1_21_4.Protocol, version.Minecraft_1_16_4.Protocol}
	}
	prot := prots[r.W.Pick(len(prots))]
	session := prot.GreaterEqual(version.Minecraft_1_19_3)
	keyed := !session && prot.GreaterEqual(version.Minecraft_1_19)
	hasUnsigned := prot.GreaterEqual(version.Minecraft_1_20_5)
	// forceKeyAuthentication: 1.19-1.19.2 clients need a profile key then (C22 runs them without);
	// with it a plugin that denies / rewrites / consumes a signed command gets the player
	// disconnected by design, so signed commands are only forwarded in that configuration.
	forceKey := ackFocus && r.W.Pick(2) == 0
	w := newClassic(r, []string{"lobby"}, func(cfg *config.Config) { cfg.ForceKeyAuthentication = forceKey })
	proxyEvents(w)

	// proxy commands: pc0..pc2, each with a permission requirement; pc2 has a sub-literal
	permitted := []bool{r.W.Pick(3) != 0, r.W.Pick(3) != 0, r.W.Pick(2) == 0}
	type exec struct {
		line string
		seq  int
	}
	var execs []exec
	seq := 0
	mkHandler := func(name string) brigodier.Command {
		return command.Command(func(c *command.Context) error {
			// asynchronous completion: the handler takes a while
			for i, n := 0, r.W.Pick(4); i < n; i++ {
				simrt.Yield("c22.handler")
			}
			if r.W.Pick(4) == 0 {
				simrt.Sleep(time.Duration(1+r.W.Pick(30))*time.Millisecond, "c22.handler-sleep")
			}
			seq++
			execs = append(execs, exec{line: c.Input, seq: seq})
			return nil
		})
	}
	for i := 0; i < 3; i++ {
		i := i
		name := fmt.Sprintf("pc%d", i)
		b := brigodier.Literal(name).Requires(command.Requires(func(c *command.RequiresContext) bool { return permitted[i] })).
			Executes(mkHandler(name))
		if i == 2 {
			// pc2 takes no free-form argument: "pc2" and "pc2 sub" are complete, anything else
			// is a syntax error the proxy answers itself
			b = b.Then(brigodier.Literal("sub").Executes(mkHandler(name)))
		} else {
			b = b.Then(brigodier.Argument("rest", brigodier.StringPhrase).Executes(mkHandler(name)))
		}
		w.p.Command().Register(b)
	}
	// event outcomes by command line
	outcomes := map[string]*chatOp{}
	event.Subscribe(w.ev, 0, func(e *proxy.CommandExecuteEvent) {
		op := outcomes[e.OriginalCommand()]
		if op == nil {
			return
		}
		switch op.outcome {
		case "deny":
			e.SetAllowed(false)
		case "forward":
			e.SetForward(true)
		case "modify":
			e.SetCommand(op.newText)
		case "modify-forward":
			e.SetCommand(op.newText)
			e.SetForward(true)
		case "deny-forward": // two subscribers: one forwards, one denies; denied wins
			e.SetForward(true)
			e.SetAllowed(false)
		}
	})

	// workload
	n := 2 + r.W.Pick(14)
	var ops []*chatOp
	stepwise := r.W.Pick(2) == 0
	burst, burstPhase := r.W.Pick(4) == 0, r.W.Pick(5)
	for i := 0; i < n; i++ {
		op := &chatOp{}
		kinds := []string{"chat", "cmd", "cmd", "cmd-signed", "ack", "cmd-unsigned"}
		if !ackFocus {
			kinds = []string{"chat", "cmd", "cmd", "cmd", "cmd-signed", "cmd-unsigned"}
		}
		op.kind = kinds[r.W.Pick(len(kinds))]
		if burst && ackFocus {
			// an explicit acknowledgement directly followed by chat: both leave the proxy back to back
			op.kind = []string{"ack", "chat", "chat", "ack", "cmd"}[(i+burstPhase)%5]
		}
		if op.kind == "cmd-unsigned" && !hasUnsigned {
			op.kind = "cmd"
		}
		if op.kind == "cmd" && hasUnsigned {
			op.kind = "cmd-unsigned" // a 1.20.5+ client sends SessionPlayerCommand only with signed arguments
		}
		if op.kind == "cmd-signed" && !session {
			op.kind = "cmd"
		}
		if op.kind == "ack" && !session {
			op.kind = "chat"
		}
		if session && op.kind != "cmd-unsigned" {
			op.offset = []int{0, 0, 1, 2, 5, 19, 25}[r.W.Pick(7)]
			if op.kind == "ack" && op.offset == 0 {
				op.offset = 1 + r.W.Pick(30)
			}
			if op.kind == "ack" && (r.W.Pick(3) == 0 || burst) {
				op.offset = 40 + r.W.Pick(25) // enough on its own to make the proxy forward an explicit acknowledgement
			}
		}
		switch op.kind {
		case "chat":
			op.text = fmt.Sprintf("hello %d", i)
		case "ack":
		default:
			root := []string{"pc0", "pc1", "pc2", "backendcmd", "other"}[r.W.Pick(5)]
			op.text = fmt.Sprintf("%s arg%d", root, i)
			if r.W.Pick(4) == 0 {
				op.text = fmt.Sprintf("%s", root) + map[bool]string{true: "", false: fmt.Sprintf(" x%d", i)}[r.W.Pick(2) == 0]
				// keep lines unique so that each is attributable
				op.text = strings.TrimSpace(op.text + fmt.Sprintf(" u%d", i))
			}
			op.outcome = []string{"allow", "allow", "allow", "deny", "forward", "modify", "modify-forward", "deny-forward"}[r.W.Pick(8)]
			if forceKey && op.kind == "cmd-signed" {
				op.outcome = "forward"
			}
			if strings.HasPrefix(op.outcome, "modify") {
				nroot := []string{"pc0", "pc1", "backendcmd", "pc2"}[r.W.Pick(4)]
				op.newText = fmt.Sprintf("%s mod%d", nroot, i)
				op.unsignedRebuild = hasUnsigned
			}
			if root == "pc2" {
				// exact forms once per run (lines are keys), otherwise a malformed tail
				switch {
				case outcomes["pc2"] == nil && r.W.Pick(3) == 0:
					op.text = "pc2"
				case outcomes["pc2 sub"] == nil && r.W.Pick(2) == 0:
					op.text = "pc2 sub"
				}
			}
			outcomes[op.text] = op
		}
		ops = append(ops, op)
	}

	type beRec struct {
		kind   string // chat, cmd, ack
		text   string
		offset int
		hasLS  bool
		typ    string
	}
	var got []beRec
	record := func(rec *pktRec) {
		switch p := rec.Packet.(type) {
		case *chat.SessionPlayerChat:
			got = append(got, beRec{kind: "chat", text: p.Message, offset: p.LastSeenMessages.Offset, hasLS: true, typ: "SessionPlayerChat"})
		case *chat.SessionPlayerCommand:
			got = append(got, beRec{kind: "cmd", text: p.Command, offset: p.LastSeenMessages.Offset, hasLS: true, typ: "SessionPlayerCommand"})
		case *chat.UnsignedPlayerCommand:
			got = append(got, beRec{kind: "cmd", text: p.Command, typ: "UnsignedPlayerCommand"})
		case *chat.ChatAcknowledgement:
			got = append(got, beRec{kind: "ack", offset: p.Offset, typ: "ChatAcknowledgement"})
		case *chat.KeyedPlayerChat:
			got = append(got, beRec{kind: "chat", text: p.Message, typ: "KeyedPlayerChat"})
		case *chat.KeyedPlayerCommand:
			got = append(got, beRec{kind: "cmd", text: p.Command, typ: "KeyedPlayerCommand"})
		case *chat.LegacyChat:
			if strings.HasPrefix(p.Message, "/") {
				got = append(got, beRec{kind: "cmd", text: strings.TrimPrefix(p.Message, "/"), typ: "LegacyChat"})
			} else {
				got = append(got, beRec{kind: "chat", text: p.Message, typ: "LegacyChat"})
			}
		}
	}
	// lag observations in stepwise mode: after each client packet and quiescence
	type lagObs struct {
		i          int
		cSum, bSum int
	}
	var lags []lagObs
	sumGot := func() int {
		s := 0
		for _, g := range got {
			s += g.offset
		}
		return s
	}
	var cl *clientModel
	sentAll := false
	cl = w.addClient("Chatter", prot, func(c *clientModel) {
		if !c.Login() {
			return
		}
		c.StartReader()
		if !c.WaitConnected(1) {
			return
		}
		for _, bc := range w.backends["lobby"].Conns {
			bc.OnPacket = record
		}
		base := time.Now()
		cSum := 0
		for i, op := range ops {
			r.Op(op.kind)
			ts := base.Add(time.Duration(i+1) * time.Millisecond)
			ls := chat.LastSeenMessages{Offset: op.offset}
			var err error
			switch {
			case op.kind == "ack":
				err = c.send(&chat.ChatAcknowledgement{Offset: op.offset})
			case op.kind == "chat" && session:
				err = c.send(&chat.SessionPlayerChat{Message: op.text, Timestamp: ts, Salt: int64(i), LastSeenMessages: ls})
			case op.kind == "chat" && keyed:
				err = c.send(&chat.KeyedPlayerChat{Message: op.text, Unsigned: true, Expiry: ts})
			case op.kind == "chat":
				err = c.send(&chat.LegacyChat{Message: op.text})
			case op.kind == "cmd-unsigned":
				err = c.send(&chat.UnsignedPlayerCommand{SessionPlayerCommand: chat.SessionPlayerCommand{Command: op.text}})
			case op.kind == "cmd-signed":
				err = c.send(&chat.SessionPlayerCommand{Command: op.text, Timestamp: ts, Salt: int64(i), LastSeenMessages: ls,
					ArgumentSignatures: chat.ArgumentSignatures{Entries: []chat.ArgumentSignature{{Name: "rest", Signature: make([]byte, 256)}}}})
			case session:
				err = c.send(&chat.SessionPlayerCommand{Command: op.text, Timestamp: ts, Salt: int64(i), LastSeenMessages: ls})
			case keyed:
				err = c.send(&chat.KeyedPlayerCommand{Unsigned: true, Command: op.text, Timestamp: ts})
			default:
				err = c.send(&chat.LegacyChat{Message: "/" + op.text})
			}
			if err != nil {
				return
			}
			cSum += op.offset
			if stepwise {
				simrt.Sleep(120*time.Millisecond, "c21.step")
				lags = append(lags, lagObs{i, cSum, sumGot()})
			} else {
				for k, m := 0, r.W.Pick(3); k < m; k++ {
					simrt.Yield("c21.client")
				}
			}
		}
		sentAll = true
		simrt.Sleep(600*time.Millisecond, "c21.drain")
	})
	why := w.s.RunUntil(60*time.Second, func() bool { return w.allClientsDone() })
	if why == "steps" {
		r.Inconclusive("step budget exhausted")
		return
	}
	if r.CheckDeadlock() {
		return
	}
	describe := func() string {
		var a, b []string
		for _, op := range ops {
			s := fmt.Sprintf("%s(%q off=%d", op.kind, op.text, op.offset)
			if op.outcome != "" {
				s += " " + op.outcome
				if op.newText != "" {
					s += "->" + op.newText
				}
			}
			a = append(a, s+")")
		}
		for _, g := range got {
			b = append(b, fmt.Sprintf("%s(%q off=%d)", g.typ, g.text, g.offset))
		}
		var e []string
		for _, x := range execs {
			e = append(e, x.line)
		}
		return fmt.Sprintf("protocol=%d forceKeyAuth=%v stepwise=%v permitted=%v client-sent=%v backend-got=%v proxy-executed=%v client=%v kick=%q", prot, forceKey, stepwise, permitted, a, b, e, clientPhases(w), cl.KickText())
	}
	if !sentAll || cl.Kick != nil {
		r.Fail("session-broken", "kicked", "a well-formed chat session was cut: %s", describe())
		return
	}

	// expected fate per command (C22)
	proxyKnows := func(line string) bool {
		root := strings.SplitN(line, " ", 2)[0]
		for i := 0; i < 3; i++ {
			if root == fmt.Sprintf("pc%d", i) {
				return permitted[i]
			}
		}
		return false
	}
	type fate struct {
		toBackend string // "" = must not reach the backend
		execLine  string // "" = proxy must not execute
	}
	fates := map[int]fate{}
	for i, op := range ops {
		if !strings.HasPrefix(op.kind, "cmd") {
			continue
		}
		line := op.text
		if strings.HasPrefix(op.outcome, "modify") {
			line = op.newText
		}
		switch op.outcome {
		case "deny", "deny-forward":
			fates[i] = fate{}
		case "forward", "modify-forward":
			fates[i] = fate{toBackend: line}
		default:
			switch {
			case !proxyKnows(line):
				fates[i] = fate{toBackend: line}
			case strings.HasPrefix(line, "pc2") && line != "pc2" && line != "pc2 sub":
				fates[i] = fate{} // a registered, permitted command with a malformed tail: answered by the proxy (syntax error), not run, not forwarded
			default:
				fates[i] = fate{execLine: line}
			}
		}
	}
	if !ackFocus {
		// C22: exactly-once on the right side
		countBE := map[string]int{}
		for _, g := range got {
			if g.kind == "cmd" {
				countBE[g.text]++
			}
		}
		countEx := map[string]int{}
		for _, x := range execs {
			countEx[x.line]++
		}
		wantBE, wantEx := map[string]int{}, map[string]int{}
		for _, f := range fates {
			if f.toBackend != "" {
				wantBE[f.toBackend]++
			}
			if f.execLine != "" {
				wantEx[f.execLine]++
			}
		}
		for i, op := range ops {
			f, ok := fates[i]
			if !ok {
				continue
			}
			cand := []string{op.text}
			if op.newText != "" {
				cand = append(cand, op.newText)
			}
			for _, line := range cand {
				if countBE[line] != wantBE[line] {
					cls := "command-not-delivered-to-backend"
					if countBE[line] > wantBE[line] {
						cls = "command-reached-backend-unexpectedly"
						if strings.HasPrefix(op.outcome, "deny") {
							cls = "denied-command-reached-backend"
						}
					}
					r.Fail(cls, fmt.Sprintf("%s:%s", familyOf(prot), op.outcome), "command %q (event outcome %s, expected backend line %q, proxy line %q): backend received %q %d time(s), expected %d: %s", op.text, op.outcome, f.toBackend, f.execLine, line, countBE[line], wantBE[line], describe())
					return
				}
				if countEx[line] != wantEx[line] {
					cls := "proxy-command-not-executed"
					if countEx[line] > wantEx[line] {
						cls = "proxy-command-executed-unexpectedly"
					}
					r.Fail(cls, fmt.Sprintf("%s:%s", familyOf(prot), op.outcome), "command %q (event outcome %s): proxy executed %q %d time(s), expected %d: %s", op.text, op.outcome, line, countEx[line], wantEx[line], describe())
					return
				}
			}
		}
		r.State(fmt.Sprintf("p%d n%d be%d ex%d", prot, n, len(got), len(execs)))
		r.Res.Sample = map[string]any{"protocol": int(prot), "ops": n, "backend_packets": len(got), "proxy_executions": len(execs), "stepwise": stepwise}
		return
	}

	// C21 (a): order — forwarded chats/commands appear in the client's order
	pos := map[string]int{}
	for i, op := range ops {
		if op.text != "" {
			pos[op.text] = i
		}
		if op.newText != "" {
			pos[op.newText] = i
		}
	}
	last := -1
	for _, g := range got {
		if g.kind == "ack" {
			continue
		}
		p, ok := pos[g.text]
		if !ok {
			r.Fail("backend-got-unknown-message", "unknown", "backend received %q which the client never sent: %s", g.text, describe())
			return
		}
		if p < last {
			r.Fail("chat-order-changed", "order", "backend received %q (client position %d) after a packet from position %d: %s", g.text, p, last, describe())
			return
		}
		last = p
	}
	// chats are never consumed: each exactly once
	for _, op := range ops {
		if op.kind != "chat" {
			continue
		}
		c := 0
		for _, g := range got {
			if g.kind == "chat" && g.text == op.text {
				c++
			}
		}
		if c != 1 {
			r.Fail("chat-lost-or-duplicated", "count", "chat %q reached the backend %d times: %s", op.text, c, describe())
			return
		}
	}
	// (b) conservation: never exceeds; complete catch-up at every forwarded last-seen update
	prefix := make([]int, len(ops)) // client acknowledgement count up to and including op i
	s := 0
	for i, op := range ops {
		s += op.offset
		prefix[i] = s
	}
	cTotal := s
	b := 0
	for _, g := range got {
		b += g.offset
		if b > cTotal {
			r.Fail("acknowledgements-exceed-client", "exceeds", "backend was told %d acknowledgements, the client acknowledged %d in total: %s", b, cTotal, describe())
			return
		}
		if g.hasLS {
			i := pos[g.text]
			if b != prefix[i] {
				cls := "acknowledgements-not-caught-up"
				if b > prefix[i] {
					cls = "acknowledgements-exceed-client"
				}
				r.Fail(cls, sigSignedConsumed(ops, i), "at forwarded packet %q (client position %d) the backend has been told %d acknowledgements, the client had acknowledged %d: %s", g.text, i, b, prefix[i], describe())
				return
			}
		} else if g.kind == "cmd" && g.offset != 0 {
			r.Fail("unsigned-command-carries-acknowledgements", "unsigned", "%s", describe())
			return
		}
	}
	// (c) lag < 40 at quiescence (and after every packet in stepwise mode)
	if cTotal-b >= 40 {
		r.Fail("acknowledgement-lag-too-large", sigSignedConsumed(ops, len(ops)-1), "at quiescence the backend lags the client by %d acknowledgements (client %d, backend %d): %s", cTotal-b, cTotal, b, describe())
		return
	}
	for _, l := range lags {
		if l.cSum-l.bSum >= 40 || l.bSum > l.cSum {
			r.Fail("acknowledgement-lag-too-large", sigSignedConsumed(ops, l.i), "after client packet %d (quiescent) client acknowledged %d, backend was told %d: %s", l.i, l.cSum, l.bSum, describe())
			return
		}
		// unsigned commands neither carry nor flush held acknowledgements
		if ops[l.i].kind == "cmd-unsigned" && l.i > 0 {
			prev := lags[l.i-1]
			if l.bSum != prev.bSum {
				r.Fail("unsigned-command-flushed-acknowledgements", "unsigned", "the unsigned command at position %d changed the backend's acknowledgement count from %d to %d: %s", l.i, prev.bSum, l.bSum, describe())
				return
			}
		}
	}
	r.State(fmt.Sprintf("p%d n%d be%d lag%d sw%v", prot, n, len(got), cTotal-b, stepwise))
	r.Res.Sample = map[string]any{"protocol": int(prot), "ops": n, "backend_packets": len(got), "client_acks": cTotal, "backend_acks": b, "stepwise": stepwise}
}

func familyOf(p gproto.Protocol) string {
	switch {
	case p.GreaterEqual(version.Minecraft_1_20_5):
		return "unsigned"
	case p.GreaterEqual(version.Minecraft_1_19_3):
		return "session"
	case p.GreaterEqual(version.Minecraft_1_19):
		return "keyed"
	}
	return "legacy"
}

// sigSignedConsumed attributes an acknowledgement mismatch: on 1.20.5+ a signed command that
// the event rewrote at or before position i is rebuilt as an unsigned command, which cannot
// carry the last-seen update (recorded finding); otherwise "plain".
func sigSignedConsumed(ops []*chatOp, i int) string {
	for k := 0; k <= i && k < len(ops); k++ {
		if ops[k].kind == "cmd-signed" && strings.HasPrefix(ops[k].outcome, "modify") && ops[k].unsignedRebuild {
			return "1.20.5+:signed-command-rewritten"
		}
	}
	return "plain"
}
