package worlds

import (
	"bytes"
	"encoding/binary"
	"fmt"
	"strings"
	"time"

	"github.com/robinbraemer/event"
	"go.minekube.com/gate/pkg/edition/java/proto/packet/plugin"
	"go.minekube.com/gate/pkg/edition/java/proto/version"
	"go.minekube.com/gate/pkg/edition/java/proxy"
	"go.minekube.com/gate/pkg/edition/java/proxy/message"
	"go.minekube.com/gate/pkg/gate/proto"
	"go.minekube.com/gate/pkg/zzverif/simrt"
)

// C24 / C25 — early plugin messages and plugin-channel events.
//
// A client (1.15+; 1.20.2+ for the early/config-phase part) sends tagged plugin messages
// on a channel known to the proxy's ChannelRegistrar ("verif:reg") and on an unknown one
// ("verif:raw") before its backend is ready (right after LoginAcknowledged, backend dial
// slow) and after the join; it registers channels in play; the backend sends plugin
// messages to the client in the configuration and play phases. Subscribers record
// PluginMessageEvent.Data() and PlayerChannelRegisterEvent.
// C24 oracle: the backend receives every early message exactly once, in send order, before
// any later one; exceeding 1024 messages / 4 MiB disconnects the player. C25 oracle: one
// register event per forwarded registration; every PluginMessageEvent exposes exactly the
// body the sender put on the wire and the receiver gets exactly Data().
func init() {
	Register(&Scenario{Prop: "C24", Desc: "early plugin messages delivered once, in order, bounded", Run: func(r *Run) { runPlugin(r, "C24") },
		Quick: 300, Thorough: 40000,
		Real:  "proxy.Proxy: clientConfigSessionHandler.enqueuePluginMessage/flushQueuedPluginMessagesTo, backendLoginSessionHandler.handleServerLoginSuccess, client play handlePluginMessage",
		Model: "client/backend actors; scripted subscribers"})
	Register(&Scenario{Prop: "C25", Desc: "plugin channel events carry the real body; register event per forwarded registration", Run: func(r *Run) { runPlugin(r, "C25") },
		Quick: 300, Thorough: 40000,
		Real:  "proxy.Proxy: client play/config and backend play/config plugin-message handlers, ChannelRegistrar, PluginMessageEvent/PlayerChannelRegisterEvent",
		Model: "client/backend actors; recording subscribers (set forward=true)"})
}

func pmBody(tag uint32, n int) []byte {
	if n < 8 {
		n = 8
	}
	b := make([]byte, n)
	copy(b, "PM")
	binary.BigEndian.PutUint32(b[2:], tag)
	for i := 6; i < n; i++ {
		b[i] = byte(tag + uint32(i))
	}
	return b
}

func pmTag(b []byte) (uint32, bool) {
	if len(b) >= 6 && b[0] == 'P' && b[1] == 'M' {
		return binary.BigEndian.Uint32(b[2:]), true
	}
	return 0, false
}

func runPlugin(r *Run, prop string) {
	if prop == "C24" {
		switch r.W.Pick(7) {
		case 0:
			runC24LegacyForge(r)
			return
		case 1:
			runC24Fallback(r)
			return
		}
	}
	prots := []proto.Protocol{version.Minecraft_1_20_2.Protocol, version.Minecraft_1_20_3.Protocol, version.Minecraft_1_21.Protocol, version.Minecraft_1_20.Protocol, version.Minecraft_1_15.Protocol, version.Minecraft_1_19_4.Protocol, version.Minecraft_1_20_5.Protocol}
	prot := prots[r.W.Pick(len(prots))]
	modern := prot.GreaterEqual(version.Minecraft_1_20_2)
	overflow := prop == "C24" && modern && r.W.Pick(6) == 0
	if overflow {
		r.Res.Variant = "overflow"
	} else if modern {
		r.Res.Variant = "config-phase"
	} else {
		r.Res.Variant = "play-only"
	}
	w := newClassic(r, []string{"lobby"}, nil)
	proxyEvents(w)
	regID, _ := message.ChannelIdentifierFrom("verif:reg")
	w.p.ChannelRegistrar().Register(regID)
	if r.F.Pick(2) == 1 {
		w.backends["lobby"].Beh.DialDelay = time.Duration(1+r.F.Pick(200)) * time.Millisecond
	}

	type evRec struct {
		channel string
		data    []byte
		fromSrv bool
	}
	var pmEvents []evRec
	regEvents := 0
	var regChannels [][]string
	event.Subscribe(w.ev, 0, func(e *proxy.PluginMessageEvent) {
		_, fromPlayer := e.Source().(proxy.Player)
		pmEvents = append(pmEvents, evRec{channel: e.Identifier().ID(), data: append([]byte(nil), e.Data()...), fromSrv: !fromPlayer})
		e.SetForward(true)
	})
	event.Subscribe(w.ev, 0, func(e *proxy.PlayerChannelRegisterEvent) {
		regEvents++
		var ids []string
		for _, c := range e.Channels() {
			ids = append(ids, c.ID())
		}
		regChannels = append(regChannels, ids)
	})

	// what the backend receives (tags in arrival order) and what the client receives
	var atBackend []uint32
	var atBackendBodies = map[uint32][]byte{}
	var atBackendChan = map[uint32]string{}
	var registerAtBackend []string
	sentRegs := map[string]bool{} // payloads of the client's own minecraft:register messages
	var atClient = map[uint32][]byte{}
	var atClientN = map[uint32]int{}
	onBackendPkt := func(rec *pktRec) {
		if pm, ok := rec.Packet.(*plugin.Message); ok {
			if plugin.IsRegister(pm) {
				if sentRegs[string(pm.Data)] { // the client's own registrations (the proxy also registers its channels)
					registerAtBackend = append(registerAtBackend, string(pm.Data))
				}
				return
			}
			if t, ok := pmTag(pm.Data); ok {
				atBackend = append(atBackend, t)
				atBackendBodies[t] = append([]byte(nil), pm.Data...)
				atBackendChan[t] = pm.Channel
			}
		}
	}
	// backend -> client messages
	nS2C := 1 + r.W.Pick(4)
	s2cSent := map[uint32][]byte{}
	s2cChan := map[uint32]string{}
	sendS2C := func(bc *backendConn, base uint32) {
		for i := 0; i < nS2C; i++ {
			tag := base + uint32(i)
			ch := []string{"verif:reg", "verif:raw"}[r.W.Pick(2)]
			body := pmBody(tag, 8+r.W.Pick(60))
			if prop == "C25" && r.W.Pick(5) == 0 {
				// clientbound plugin messages may be far larger than the 32767-byte serverbound cap
				body = pmBody(tag, []int{32767, 32768, 40000, 100000}[r.W.Pick(4)])
			}
			s2cSent[tag], s2cChan[tag] = body, ch
			r.Op("s2c:" + ch)
			_ = bc.send(&plugin.Message{Channel: ch, Data: body})
		}
	}
	w.backends["lobby"].Beh.OnConfig = func(bc *backendConn) {
		bc.OnPacket = onBackendPkt
		// messages buffered by the proxy before we were ready arrive now; read for a moment
		sendS2C(bc, 9000)
	}
	w.backends["lobby"].Beh.OnJoined = func(bc *backendConn) {
		bc.OnPacket = onBackendPkt
		simrt.Sleep(30*time.Millisecond, "c24.backend-play")
		sendS2C(bc, 9500)
	}

	nEarly := 1 + r.W.Pick(12)
	if overflow {
		nEarly = 1030
	}
	bigEarly := overflow && r.W.Pick(2) == 0 // exceed the byte budget instead of the count
	if bigEarly {
		nEarly = 140 // 140 x 32000 bytes > 4 MiB, well below the 1024-message cap
	}
	nLate := 1 + r.W.Pick(6)
	sentBodies := map[uint32][]byte{}
	sentChan := map[uint32]string{}
	var earlyTags, lateTags []uint32
	registered := false
	nRegistrations := 1
	var cl *clientModel
	cl = w.addClient("Plug", prot, func(c *clientModel) {
		c.OnPacket = func(rec *pktRec) {
			if pm, ok := rec.Packet.(*plugin.Message); ok {
				if t, ok := pmTag(pm.Data); ok {
					atClient[t] = append([]byte(nil), pm.Data...)
					atClientN[t]++
				} else if i := bytes.Index(pm.Data, []byte("PM")); i > 0 && len(pm.Data) >= i+6 {
					// a body that is not the plain body but contains it: record for the oracle
					t := binary.BigEndian.Uint32(pm.Data[i+2:])
					atClient[t] = append([]byte(nil), pm.Data...)
					atClientN[t]++
				}
			}
		}
		if modern {
			c.OnConfigEnter = func() {
				for i := 0; i < nEarly; i++ {
					tag := uint32(100 + i)
					ch := []string{"verif:raw", "verif:reg"}[r.W.Pick(2)]
					if overflow {
						ch = "verif:raw"
					}
					n := 8 + r.W.Pick(40)
					if bigEarly {
						n = 32000 // just below the per-message serverbound cap (32767)
					}
					body := pmBody(tag, n)
					sentBodies[tag], sentChan[tag] = body, ch
					earlyTags = append(earlyTags, tag)
					if !overflow || i < 3 {
						r.Op("early:" + ch)
					}
					if c.send(&plugin.Message{Channel: ch, Data: body}) != nil {
						return
					}
				}
			}
		}
		if !c.Login() {
			return
		}
		c.StartReader()
		if !c.WaitConnected(1) {
			return
		}
		if r.W.Pick(2) == 0 {
			registered = true
			r.Op("register")
			sentRegs["verif:client1\x00verif:client2"] = true
			_ = c.send(&plugin.Message{Channel: "minecraft:register", Data: []byte("verif:client1\x00verif:client2")})
			// mods register again after a respawn or switch: the same set, a subset, nothing, or
			// names that are not valid identifiers (legacy mods); every forwarded registration
			// raises its event
			for i, n := 0, r.W.Pick(3); i < n; i++ {
				nRegistrations++
				r.Op("register-again")
				d := [][]byte{[]byte("verif:client1\x00verif:client2"), []byte("verif:client1"), []byte("NOT A VALID ID\x00Also Bad!"), []byte("FML|HS\x00FML\x00FORGE")}[r.W.Pick(4)]
				sentRegs[string(d)] = true
				_ = c.send(&plugin.Message{Channel: "minecraft:register", Data: d})
			}
		}
		for i := 0; i < nLate; i++ {
			tag := uint32(5000 + i)
			ch := []string{"verif:raw", "verif:reg"}[r.W.Pick(2)]
			body := pmBody(tag, 8+r.W.Pick(40))
			sentBodies[tag], sentChan[tag] = body, ch
			lateTags = append(lateTags, tag)
			r.Op("late:" + ch)
			if c.send(&plugin.Message{Channel: ch, Data: body}) != nil {
				return
			}
			simrt.Yield("c24.client")
		}
		simrt.Sleep(400*time.Millisecond, "c24.client-stay")
	})
	why := w.s.RunUntil(30*time.Second, func() bool { return w.allClientsDone() })
	if why == "steps" {
		r.Inconclusive("step budget exhausted")
		return
	}
	w.s.RunUntil(2*time.Second, nil)
	if r.CheckDeadlock() {
		return
	}
	if overflow {
		if cl.Kick == nil || !strings.Contains(cl.KickText(), "Too many plugin messages") {
			// the backend may have become ready before the cap was reached (then nothing overflowed)
			if len(atBackend) >= nEarly-1 {
				r.Probe("overflow_not_reached_backend_ready_first")
				return
			}
			r.Fail("unbounded-early-buffer", "overflow", "client sent %d early plugin messages (big=%v) before the backend was ready; it was not disconnected (kick=%q), backend got %d", nEarly, bigEarly, cl.KickText(), len(atBackend))
			return
		}
		r.Probe("overflow_disconnected")
		return
	}
	if len(cl.JoinGames) == 0 {
		r.Fail("join-failed", "join", "fault-free join failed: %v kick %q", clientPhases(w), cl.KickText())
		return
	}
	if prop == "C24" {
		// exactly once, in order, early before late
		seen := map[uint32]int{}
		for _, t := range atBackend {
			seen[t]++
		}
		for _, t := range earlyTags {
			if seen[t] != 1 {
				r.Fail("early-message-count", fmt.Sprintf("count=%d", min(seen[t], 2)), "early plugin message %d (channel %s) reached the backend %d times (want exactly once); backend order %v", t, sentChan[t], seen[t], atBackend)
				return
			}
		}
		pos := map[uint32]int{}
		for i, t := range atBackend {
			pos[t] = i
		}
		for i := 1; i < len(earlyTags); i++ {
			if pos[earlyTags[i-1]] > pos[earlyTags[i]] {
				r.Fail("early-message-order", "order", "early plugin messages arrived out of order at the backend: %v", atBackend)
				return
			}
		}
		for _, e := range earlyTags {
			for _, l := range lateTags {
				if seen[l] > 0 && pos[l] < pos[e] {
					r.Fail("late-before-early", "order", "plugin message %d sent after the join reached the backend before early message %d: %v", l, e, atBackend)
					return
				}
			}
		}
		for _, t := range earlyTags {
			if !bytes.Equal(atBackendBodies[t], sentBodies[t]) || atBackendChan[t] != sentChan[t] {
				r.Fail("early-message-altered", "body", "early plugin message %d arrived altered (channel %q body %d bytes, sent %q %d bytes)", t, atBackendChan[t], len(atBackendBodies[t]), sentChan[t], len(sentBodies[t]))
				return
			}
		}
		r.State(fmt.Sprintf("p%d early%d late%d", prot, nEarly, nLate))
		r.Res.Sample = map[string]any{"protocol": int(prot), "early": earlyTags, "late": lateTags, "backend_order": atBackend}
		return
	}
	// C25
	if registered {
		fwd := len(registerAtBackend)
		if regEvents != fwd {
			r.Fail("register-event-count", fmt.Sprintf("events=%d,forwarded=%d", min(regEvents, 2), min(fwd, 2)), "client registration forwarded to the backend %d time(s) but %d PlayerChannelRegisterEvent(s) fired", fwd, regEvents)
			return
		}
		if fwd != nRegistrations {
			r.Fail("register-not-forwarded", "register", "client sent %d minecraft:register messages in play; backend received %d", nRegistrations, fwd)
			return
		}
		if len(regChannels) >= 1 && strings.Join(regChannels[0], ",") != "verif:client1,verif:client2" {
			r.Fail("register-event-channels", "register", "register event lists %v, client registered verif:client1, verif:client2", regChannels[0])
			return
		}
	}
	for _, ev := range pmEvents {
		t, ok := pmTag(ev.data)
		if !ok {
			r.Fail("event-data-not-body", phaseOfTag(ev.data), "a PluginMessageEvent on %s exposes %d bytes that are not a message body the peers sent (starts %q): the event carries something other than the plugin message body", ev.channel, len(ev.data), head(ev.data, 24))
			return
		}
		var sent []byte
		if ev.fromSrv {
			sent = s2cSent[t]
		} else {
			sent = sentBodies[t]
		}
		if sent == nil {
			// source attribution differs in the config phase (source/target are swapped there); accept either direction
			if s2cSent[t] != nil {
				sent = s2cSent[t]
			} else {
				sent = sentBodies[t]
			}
		}
		if !bytes.Equal(sent, ev.data) {
			r.Fail("event-data-differs", "body", "PluginMessageEvent for message %d exposes a body different from the one sent (%d vs %d bytes)", t, len(ev.data), len(sent))
			return
		}
	}
	// what the client finally received for backend messages must be the body
	for t, body := range s2cSent {
		got, ok := atClient[t]
		if !ok {
			continue // config-phase messages on a registered channel are only forwarded when allowed; delivery itself is C15/C24 territory
		}
		if !bytes.Equal(got, body) {
			r.Fail("forwarded-data-not-body", "s2c-"+s2cChan[t], "backend sent plugin message %d on %s with a %d-byte body; the client received %d bytes (starts %q)", t, s2cChan[t], len(body), len(got), head(got, 24))
			return
		}
		if atClientN[t] > 1 {
			r.Fail("forwarded-twice", "s2c", "backend plugin message %d reached the client %d times", t, atClientN[t])
			return
		}
	}
	for t, body := range atBackendBodies {
		if sentBodies[t] != nil && !bytes.Equal(sentBodies[t], body) {
			r.Fail("forwarded-data-not-body", "c2s-"+sentChan[t], "client plugin message %d arrived at the backend altered (%d vs %d bytes)", t, len(body), len(sentBodies[t]))
			return
		}
	}
	r.State(fmt.Sprintf("p%d ev%d reg%v", prot, len(pmEvents), registered))
	r.Res.Sample = map[string]any{"protocol": int(prot), "pm_events": len(pmEvents), "register_events": regEvents, "registered": registered, "s2c": len(s2cSent), "client_got": len(atClient)}
}

func head(b []byte, n int) string {
	if len(b) > n {
		b = b[:n]
	}
	return string(b)
}

func phaseOfTag(b []byte) string {
	if i := bytes.Index(b, []byte("PM")); i >= 0 && len(b) >= i+6 {
		t := binary.BigEndian.Uint32(b[i+2:])
		if t >= 9000 && t < 9500 {
			return "backend-config-phase"
		}
		if t >= 9500 {
			return "backend-play-phase"
		}
		return "client"
	}
	return "unknown"
}
