package future

func verifExported() string { return "injected non-test file" }
