package worlds

import (
	"fmt"
	"os"
	"time"

	"go.minekube.com/gate/pkg/edition/java/proto/packet/plugin"
	"go.minekube.com/gate/pkg/edition/java/proto/version"
	"go.minekube.com/gate/pkg/gate/proto"
	"go.minekube.com/gate/pkg/zzverif/simrt"
)

// runC24LegacyForge — the pre-1.13 mod-loader handshake (channel FML|HS) runs in the play
// state; JoinGame arrives in the middle of it. Everything else the client sends before its
// own last handshake acknowledgement is "sent before its backend is ready": it must reach
// the backend exactly once, in the order sent, and before anything sent afterwards.
//
// The client and the backend follow the FML state machine (server hello, client hello +
// mod list, server mod list, ack, registry data, ack, ack, ack, ack); the client puts
// numbered messages on its own channel at tape-chosen points of the handshake, in
// particular between the backend's last acknowledgement and its own.
func runC24LegacyForge(r *Run) {
	r.Res.Variant = "legacy-forge"
	prots := []proto.Protocol{version.Minecraft_1_12_2.Protocol, version.Minecraft_1_8.Protocol, version.Minecraft_1_9.Protocol}
	prot := prots[r.W.Pick(len(prots))]
	w := newClassic(r, []string{"lobby", "s2"}, nil)
	proxyEvents(w)
	const hs = "FML|HS"
	fml := func(b ...byte) *plugin.Message { return &plugin.Message{Channel: hs, Data: b} }
	// backend: server hello before JoinGame; JoinGame once the client's mod list arrived
	var got []string           // the numbered messages in arrival order at the backend
	var sentHS, gotHS []string // handshake messages as the client sent them / as the backend received them
	var cl *clientModel
	fmlSend := func(b ...byte) {
		if cl.send(fml(b...)) == nil {
			sentHS = append(sentHS, string(b))
		}
	}
	acks := 0
	var onBackendPacket func(bc *backendConn) func(rec *pktRec)
	w.backends["s2"].Beh.OnPreJoin = func(bc *backendConn) {
		bc.OnPacket = onBackendPacket(bc)
		_ = bc.send(fml(0, 2, 0, 0, 0, 0))
		for {
			rec, err := bc.w.read()
			if err != nil {
				return
			}
			if m, ok := rec.Packet.(*plugin.Message); ok {
				if m.Channel == hs {
					gotHS = append(gotHS, string(m.Data))
				}
				if m.Channel == hs && len(m.Data) > 0 && m.Data[0] == 2 {
					_ = bc.send(fml(2, 0)) // server mod list (no mods)
					return
				}
				if m.Channel == "verif:n" {
					got = append(got, string(m.Data))
				}
			}
		}
	}
	onBackendPacket = func(bc *backendConn) func(rec *pktRec) {
		return func(rec *pktRec) {
			m, ok := rec.Packet.(*plugin.Message)
			if !ok {
				return
			}
			if m.Channel == "verif:n" {
				got = append(got, string(m.Data))
				return
			}
			if m.Channel == hs {
				gotHS = append(gotHS, string(m.Data))
			}
			if m.Channel != hs || len(m.Data) == 0 || m.Data[0] != 0xff {
				return
			}
			acks++
			switch acks {
			case 1:
				_ = bc.send(fml(3, 0, 0)) // registry data
			case 2:
				_ = bc.send(fml(0xff, 2)) // ack: waiting for the client's ack
			case 3:
				_ = bc.send(fml(0xff, 3)) // ack: complete
			}
		}
	}
	// client
	nAt := make([]int, 6) // how many numbered messages after each handshake stage
	for i := range nAt {
		nAt[i] = r.W.Pick(3)
	}
	nAt[0], nAt[1] = 0, 0 // until JoinGame the old server is "in transition": other messages are dropped by design
	nAt[4] += r.W.Pick(2) // the stage between the backend's last ack and the client's own
	var sent []string
	next := 0
	number := func(stage int) {
		for i := 0; i < nAt[stage]; i++ {
			next++
			s := fmt.Sprintf("m%d@%d", next, stage)
			r.Op("numbered-message")
			if cl.send(&plugin.Message{Channel: "verif:n", Data: []byte(s)}) == nil {
				sent = append(sent, s)
			}
			for k, n := 0, r.W.Pick(3); k < n; k++ {
				simrt.Yield("c24lf.client")
			}
		}
	}
	// flood variants: more than the queue may hold (4 MiB / 1024 messages) while the handshake runs
	flood := []string{"", "", "", "bytes", "count"}[r.W.Pick(5)]
	floodSent, floodBytes := 0, 0
	doFlood := func() {
		n, size := 140, 32000
		if flood == "count" {
			n, size = 1100, 8
		}
		r.Op("flood-" + flood)
		for i := 0; i < n; i++ {
			next++
			body := append([]byte(fmt.Sprintf("f%d@2 ", next)), make([]byte, size)...)
			if cl.send(&plugin.Message{Channel: "verif:n", Data: body}) != nil {
				return
			}
			floodSent++
			floodBytes += len(body)
		}
	}
	stage := 0
	completed := false
	onClientPacket := func(rec *pktRec) {
		m, ok := rec.Packet.(*plugin.Message)
		if !ok || m.Channel != hs || len(m.Data) == 0 {
			return
		}
		// A remote client answers one network latency later, never within the instant in which
		// the proxy is still finishing the step that relayed the message (same convention as for
		// the backend model; window documented in DESIGN.md §12.5).
		simrt.Sleep(time.Millisecond, "c24lf.client-latency")
		switch m.Data[0] {
		case 0: // server hello
			_ = cl.send(&plugin.Message{Channel: "REGISTER", Data: []byte("FML|HS\x00FML\x00verif:n")})
			fmlSend(1, 2)
			number(0)
			fmlSend(2, 1, 3, 'm', 'o', 'd', 1, '1')
			stage = 1
		case 2: // server mod list
			number(1)
			fmlSend(0xff, 2)
			stage = 2
		case 3: // registry data
			if flood != "" {
				doFlood()
			}
			number(2)
			fmlSend(0xff, 3)
			stage = 3
		case 0xff:
			if stage == 3 {
				number(3)
				fmlSend(0xff, 4)
				stage = 4
			} else if stage == 4 {
				// the backend is done; the client is not, until its own acknowledgement
				r.Probe("messages_between_backend_complete_and_client_ack")
				number(4)
				fmlSend(0xff, 5)
				stage = 5
				completed = true
				number(5)
			}
		}
	}
	done := false
	cl = w.addClient("Modded", prot, func(c *clientModel) {
		defer func() { done = true }()
		c.Host = "play.example.com\x00FML\x00"
		c.OnPacket = onClientPacket
		if !cl.Login() {
			return
		}
		cl.StartReader()
		if !cl.WaitConnected(1) {
			return
		}
		// switch to the modded server: its handshake resets the client's
		pl, s2 := w.p.PlayerByName("Modded"), w.p.Server("s2")
		if pl == nil || s2 == nil {
			return
		}
		r.Op("switch-to-modded")
		simrt.Go(func() { _, _ = pl.CreateConnectionRequest(s2).Connect(pl.Context()) })
		simrt.Sleep(2*time.Second, "c24lf.handshake")
		next++
		last := fmt.Sprintf("m%d@end", next)
		if cl.send(&plugin.Message{Channel: "verif:n", Data: []byte(last)}) == nil {
			sent = append(sent, last)
		}
		simrt.Sleep(300*time.Millisecond, "c24lf.drain")
		cl.Close()
	})
	why := w.s.RunUntil(60*time.Second, func() bool { return done })
	if why == "steps" {
		r.Inconclusive("step budget exhausted")
		return
	}
	if r.CheckDeadlock() {
		return
	}
	desc := fmt.Sprintf("protocol=%d handshake-stage=%d completed=%v sent=%v backend-got=%v client=%v kick=%q", prot, stage, completed, sent, got, clientPhases(w), cl.KickText())
	// the mod-loader handshake is itself made of plugin messages sent before the backend is
	// ready: each must arrive as sent
	for i, g := range gotHS {
		if i >= len(sentHS) || g != sentHS[i] {
			want := "<nothing>"
			if i < len(sentHS) {
				want = fmt.Sprintf("%x", sentHS[i])
			}
			r.Fail("early-message-altered", "legacy-forge-handshake", "handshake message #%d reached the backend as %x, the client sent %s: %s", i+1, g, want, desc)
			return
		}
	}
	if flood != "" {
		r.Probe("legacy_forge_flood_" + flood)
		if (floodBytes > 4<<20 || floodSent > 1024) && cl.Kick == nil && completed {
			r.Fail("early-buffer-unbounded", "legacy-forge-"+flood, "the client sent %d messages / %d bytes while its handshake was running (limits: 1024 messages, 4 MiB) and was not disconnected: %s", floodSent, floodBytes, fmt.Sprintf("protocol=%d stage=%d backend-got=%d client=%v", prot, stage, len(got), clientPhases(w)))
			return
		}
		r.State("lf-flood-" + flood)
		return
	}
	if !completed {
		// the model's own handshake did not get through: nothing to judge (counted, so that a
		// harness that never completes is visible in the evidence)
		r.Probe("legacy_forge_handshake_incomplete")
		r.State("lf-incomplete")
		if os.Getenv("VSIM_C24LF_DEBUG") != "" {
			r.Fail("debug-incomplete", "debug", "%s backend=%s", desc, w.backends["s2"].describe())
		}
		return
	}
	r.Probe("legacy_forge_handshake_completed")
	if fmt.Sprint(got) != fmt.Sprint(sent) {
		cls, sig := "early-message-count", "legacy-forge"
		if len(got) == len(sent) {
			cls = "early-message-order"
		}
		r.Fail(cls, sig, "messages the Legacy Forge client sent during its handshake must reach the backend exactly once and in order: %s", desc)
		return
	}
	r.State(fmt.Sprintf("lf p%d n%d", prot, len(sent)))
	r.Res.Sample = map[string]any{"protocol": int(prot), "variant": "legacy-forge", "messages": len(sent)}
}
