#!/bin/sh
# Determinism self-test for every claimed check: 32 run indices in fresh processes at GOMAXPROCS 1, 4, 16.
D="$(cd "$(dirname "$0")/.." && pwd)"
for p in ${1:-$(python3 -c "import json;print(' '.join(c['property_id'] for c in json.load(open('$D/MANIFEST.json'))['checks']))")}; do
  out=$("$D/vcheck" $p --tier quick --selftest-determinism 2>&1 | tail -2 | tr '\n' ' ')
  echo "$p: $out"
done
