package worlds

import (
	"fmt"
	"sort"
	"strings"
	"time"

	"go.minekube.com/common/minecraft/component"
	"go.minekube.com/gate/pkg/edition/java/profile"
	"go.minekube.com/gate/pkg/edition/java/proto/packet/chat"
	"go.minekube.com/gate/pkg/edition/java/proto/packet/tablist/playerinfo"
	"go.minekube.com/gate/pkg/edition/java/proto/state"
	"go.minekube.com/gate/pkg/edition/java/proto/version"
	ptab "go.minekube.com/gate/pkg/edition/java/proxy/tablist"
	"go.minekube.com/gate/pkg/gate/proto"
	itab "go.minekube.com/gate/pkg/internal/tablist"
	"go.minekube.com/gate/pkg/util/uuid"
	"go.minekube.com/gate/pkg/zzverif/mcpeer"
	"go.minekube.com/gate/pkg/zzverif/simrt"
)

// C28 — the tab-list model matches what the client was told.
//
// A 1.19.3+ player in play. API caller goroutines add / update / remove tab-list entries
// through Player.TabList() (Add with fresh and changed entries, Set* on entries,
// RemoveAll) interleaved with backend player-info update / remove packets. The client model
// decodes every player-info packet it receives with the independent decoder (payloads in
// protocol enum order) and maintains the list a vanilla client would hold. Oracle at
// quiescent points: TabList.Entries() = the client's held list (ids, names, latency, game
// mode, listed flag, display-name presence, list order on 1.21.2+); every packet must
// decode completely with the independent decoder.
func init() {
	Register(&Scenario{Prop: "C28", Desc: "tab-list model equals the list a vanilla client holds", Run: runC28,
		Quick: 400, Thorough: 60000,
		Real:  "pkg/internal/tablist (Add/RemoveAll/Set*/ProcessUpdate/ProcessRemove), playerinfo.Upsert/Remove encoders, backend play handler forwarding",
		Model: "client model with an independent player-info decoder (mcpeer); backend actor sending canonical player-info packets; API caller actors"})
}

func tabUUID(n int) uuid.UUID {
	var u [16]byte
	u[0], u[6], u[8], u[15] = 0xAB, 0x40, 0x80, byte(n+1)
	return uuid.UUID(u)
}

func runC28(r *Run) {
	prots := []proto.Protocol{version.Minecraft_1_20.Protocol, version.Minecraft_1_20_2.Protocol, version.Minecraft_1_19_4.Protocol, version.Minecraft_1_20_3.Protocol, version.Minecraft_1_21.Protocol, version.Minecraft_1_21_4.Protocol}
	prot := prots[r.W.Pick(len(prots))]
	w := newClassic(r, []string{"lobby"}, nil)
	proxyEvents(w)
	reg := state.FromDirection(proto.ClientBound, state.Play, prot)
	upID, ok1 := reg.PacketID(&playerinfo.Upsert{})
	rmID, ok2 := reg.PacketID(&playerinfo.Remove{})
	if !ok1 || !ok2 {
		r.HarnessError("no player-info ids for protocol %d", prot)
		return
	}
	held := map[[16]byte]*mcpeer.TabEntry{}
	decodeErr := ""
	nPackets := 0
	type op struct {
		kind string
		id   int
		a, b int
	}
	nAPI := 2 + r.W.Pick(8)
	nBE := r.W.Pick(6)
	apiOps := make([]op, nAPI)
	for i := range apiOps {
		apiOps[i] = op{kind: []string{"add", "add", "add-changed", "set-latency", "set-gamemode", "set-listed", "set-display", "remove", "set-display-nil", "set-listorder"}[r.W.Pick(10)], id: r.W.Pick(4), a: r.W.Pick(500), b: r.W.Pick(4)}
	}
	beOps := make([]op, nBE)
	mode := r.W.Pick(5) // 0,1: disjoint entries, concurrent; 2: same entries, backend after the API caller; 3: same entries, concurrent; 4: same entries, API caller after the backend
	overlap := mode >= 2
	for i := range beOps {
		beOps[i] = op{kind: []string{"be-add", "be-update", "be-remove"}[r.W.Pick(3)], id: 4 + r.W.Pick(3), a: r.W.Pick(300), b: r.W.Pick(4)}
		if overlap {
			beOps[i].id -= 4
		}
	}
	apiDone, beDone, apiStarted := false, nBE == 0, false
	w.backends["lobby"].Beh.OnJoined = func(bc *backendConn) {
		for i := 0; !apiStarted && i < 2000; i++ {
			simrt.Sleep(time.Millisecond, "c28.backend-wait")
		}
		if mode == 2 {
			for i := 0; !apiDone && i < 2000; i++ {
				simrt.Sleep(time.Millisecond, "c28.backend-wait")
			}
			simrt.Sleep(50*time.Millisecond, "c28.backend-wait")
		}
		for _, o := range beOps {
			r.Op(o.kind)
			id := tabUUID(o.id)
			switch o.kind {
			case "be-add":
				_ = bc.send(&playerinfo.Upsert{
					ActionSet: []playerinfo.UpsertAction{playerinfo.AddPlayerAction, playerinfo.UpdateGameModeAction, playerinfo.UpdateListedAction, playerinfo.UpdateLatencyAction},
					Entries:   []*playerinfo.Entry{{ProfileID: id, Profile: profile.GameProfile{ID: id, Name: fmt.Sprintf("p%d", o.id)}, GameMode: o.b, Listed: true, Latency: o.a}},
				})
			case "be-update":
				ents := []*playerinfo.Entry{{ProfileID: id, GameMode: o.b, Latency: o.a}}
				if o.a%3 == 0 {
					// the periodic latency broadcast lists several players in one packet, some of
					// which this viewer may not know (any more)
					ents = []*playerinfo.Entry{{ProfileID: tabUUID(20 + o.b), GameMode: o.b, Latency: o.a}, ents[0], {ProfileID: tabUUID((o.id+1)%3 + 4 - map[bool]int{true: 4, false: 0}[overlap]), GameMode: (o.b + 1) % 4, Latency: o.a + 1}}
				}
				_ = bc.send(&playerinfo.Upsert{
					ActionSet: []playerinfo.UpsertAction{playerinfo.UpdateGameModeAction, playerinfo.UpdateLatencyAction},
					Entries:   ents,
				})
			case "be-remove":
				_ = bc.send(&playerinfo.Remove{PlayersToRemove: []uuid.UUID{id}})
			}
			for k, n := 0, r.W.Pick(5); k < n; k++ {
				simrt.Yield("c28.backend")
			}
		}
		beDone = true
	}
	var cl *clientModel
	var tl ptab.TabList
	cl = w.addClient("Tabby", prot, func(c *clientModel) {
		c.OnPacket = func(rec *pktRec) {
			b := mcpeer.NewBuf(rec.Payload)
			id := int(b.VarInt())
			switch proto.PacketID(id) {
			case upID:
				nPackets++
				acts, ents, err := mcpeer.DecodePlayerInfoUpdate(rec.Payload[b.Off:], int(prot))
				if err != nil {
					if decodeErr == "" {
						decodeErr = fmt.Sprintf("player-info update #%d does not decode with the protocol's field order: %v (payload %x)", nPackets, err, rec.Payload)
					}
					return
				}
				mcpeer.ApplyPlayerInfo(held, acts, ents)
			case rmID:
				nPackets++
				ids, err := mcpeer.DecodePlayerInfoRemove(rec.Payload[b.Off:])
				if err != nil {
					if decodeErr == "" {
						decodeErr = fmt.Sprintf("player-info remove does not decode: %v", err)
					}
					return
				}
				for _, id := range ids {
					delete(held, id)
				}
			}
		}
		if !c.Login() {
			return
		}
		c.AutoKeepAlive = true
		c.StartReader()
		if !c.WaitConnected(1) {
			return
		}
		pl := w.p.PlayerByName("Tabby")
		if pl == nil {
			return
		}
		tl = pl.TabList()
		root := tl.(itab.InternalTabList)
		simrt.Go(func() {
			defer func() { apiDone = true }()
			apiStarted = true
			if mode == 4 {
				for i := 0; !beDone && i < 2000; i++ {
					simrt.Sleep(time.Millisecond, "c28.api-wait")
				}
				simrt.Sleep(50*time.Millisecond, "c28.api-wait")
			}
			for _, o := range apiOps {
				id := tabUUID(o.id)
				r.Op(o.kind)
				mk := func(changed bool) *itab.Entry {
					e := &itab.Entry{OwningTabList: root, EntryAttributes: itab.EntryAttributes{
						Profile: profile.GameProfile{ID: id, Name: fmt.Sprintf("p%d", o.id)},
						Latency: time.Duration(o.a) * time.Millisecond, GameMode: o.b, Listed: o.a%2 == 0, ShowsHat: true, ListOrder: o.a % 5,
					}}
					if changed || o.a%3 == 0 {
						e.EntryAttributes.DisplayName = &component.Text{Content: fmt.Sprintf("nick%d", o.a)}
					}
					return e
				}
				cur := tl.Entries()[id]
				switch o.kind {
				case "add":
					_ = tl.Add(mk(false))
				case "add-changed":
					_ = tl.Add(mk(true))
				case "set-latency":
					if cur != nil {
						_ = cur.SetLatency(time.Duration(o.a) * time.Millisecond)
					}
				case "set-gamemode":
					if cur != nil {
						_ = cur.SetGameMode(o.b)
					}
				case "set-listed":
					if cur != nil {
						_ = cur.SetListed(o.b%2 == 0)
					}
				case "set-display":
					if cur != nil {
						_ = cur.SetDisplayName(&component.Text{Content: fmt.Sprintf("nick%d", o.a)})
					}
				case "set-display-nil":
					if cur != nil {
						_ = cur.SetDisplayName(nil)
					}
				case "set-listorder":
					if cur != nil {
						_ = cur.SetListOrder(o.b)
					}
				case "remove":
					_ = tl.RemoveAll(id)
				}
				for k, n := 0, r.W.Pick(5); k < n; k++ {
					simrt.Yield("c28.api")
				}
			}
		})
		for (!apiDone || !beDone) && c.Phase != "closed" {
			simrt.Sleep(20*time.Millisecond, "c28.wait")
		}
		// RemoveAll only buffers its packet (internal callers flush later); any later
		// packet to the player flushes it. A real backend sends packets every tick, here
		// one keep-alive after the last operation plays that role.
		simrt.Sleep(100*time.Millisecond, "c28.drain")
		for _, bc := range w.backends["lobby"].Conns {
			if bc.Live() {
				_ = bc.SendKeepAlive(4242)
			}
		}
		simrt.Sleep(300*time.Millisecond, "c28.drain")
	})
	why := w.s.RunUntil(60*time.Second, func() bool { return w.allClientsDone() })
	if why == "steps" {
		r.Inconclusive("step budget exhausted")
		return
	}
	if r.CheckDeadlock() {
		return
	}
	if len(cl.JoinGames) == 0 || tl == nil {
		r.Fail("join-failed", "join", "fault-free join failed: %v kick %q", clientPhases(w), cl.KickText())
		return
	}
	if decodeErr != "" {
		r.Fail("player-info-not-decodable-by-vanilla", "field-order", "%s", decodeErr)
		return
	}
	var model map[uuid.UUID]ptab.Entry
	if !simrt.DriverCall(func() { model = tl.Entries() }) {
		r.HarnessError("tab list busy at cool-down")
		return
	}
	desc := func() string {
		var ms, hs []string
		for id, e := range model {
			ms = append(ms, fmt.Sprintf("%x:%s lat=%d gm=%d listed=%v dn=%v", id[15], e.Profile().Name, e.Latency().Milliseconds(), e.GameMode(), e.Listed(), e.DisplayName() != nil))
		}
		for id, e := range held {
			hs = append(hs, fmt.Sprintf("%x:%s lat=%d gm=%d listed=%v dn=%v", id[15], e.Name, e.Latency, e.GameMode, e.Listed, e.HasDisplay))
		}
		sort.Strings(ms)
		sort.Strings(hs)
		var ops []string
		for _, o := range apiOps {
			ops = append(ops, fmt.Sprintf("%s(%d)", o.kind, o.id))
		}
		for _, o := range beOps {
			ops = append(ops, fmt.Sprintf("%s(%d)", o.kind, o.id))
		}
		return fmt.Sprintf("protocol=%d mode=%d ops=%v proxy-model=[%s] client-holds=[%s]", prot, mode, ops, strings.Join(ms, "; "), strings.Join(hs, "; "))
	}
	// the player's own entry etc. are not part of this workload: compare our ids only
	sigFor := func(base string) string {
		if mode == 3 {
			// API caller and backend stream change the same entry at the same time
			return "concurrent:api-and-backend-on-same-entry"
		}
		return base
	}
	for n := 0; n < 7; n++ {
		id := tabUUID(n)
		m, inModel := model[id]
		h, inClient := held[[16]byte(id)]
		if inModel != inClient {
			r.Fail("tablist-membership-differs", sigFor("membership"), "entry %d: in proxy model=%v, held by client=%v: %s", n, inModel, inClient, desc())
			return
		}
		if !inModel {
			continue
		}
		if m.Profile().Name != h.Name || int32(m.Latency().Milliseconds()) != h.Latency || int32(m.GameMode()) != h.GameMode || m.Listed() != h.Listed || (m.DisplayName() != nil) != h.HasDisplay ||
			(prot.GreaterEqual(version.Minecraft_1_21_2) && int32(m.ListOrder()) != h.ListOrder) {
			r.Fail("tablist-entry-differs", sigFor("fields"), "entry %d differs between the proxy's model and the client: %s", n, desc())
			return
		}
		if h.HasDisplay && prot.Lower(version.Minecraft_1_20_3) {
			if t, ok := m.DisplayName().(*component.Text); ok && !strings.Contains(string(h.DisplayRaw), t.Content) {
				r.Fail("tablist-entry-differs", sigFor("display-name"), "entry %d: client holds display name %q, model %q", n, h.DisplayRaw, t.Content)
				return
			}
		}
	}
	r.State(fmt.Sprintf("p%d api%d be%d held%d mode%d", prot, nAPI, nBE, len(held), mode))
	r.Res.Sample = map[string]any{"protocol": int(prot), "api_ops": nAPI, "backend_ops": nBE, "player_info_packets": nPackets, "held": len(held)}
	_ = chat.ComponentHolder{}
}
