package worlds

import (
	"os"
	"strings"

	"crypto/md5"
	"fmt"
	"github.com/go-logr/logr/funcr"
	"time"

	"go.minekube.com/common/minecraft/component"
	"go.minekube.com/gate/pkg/edition/java/auth"
	"go.minekube.com/gate/pkg/edition/java/config"
	"go.minekube.com/gate/pkg/edition/java/proto/version"
	"go.minekube.com/gate/pkg/edition/java/proxy"
	"go.minekube.com/gate/pkg/gate/proto"
	"go.minekube.com/gate/pkg/util/configutil"
	"go.minekube.com/gate/pkg/util/uuid"
	"go.minekube.com/gate/pkg/zzverif/simnet"
	"go.minekube.com/gate/pkg/zzverif/simrt"
)

// classicWorld is W-classic: a real proxy.Proxy in classic mode with simulated clients,
// backends and (optionally) a session server.
type classicWorld struct {
	r            *Run
	s            *simrt.Sim
	p            *proxy.Proxy
	ev           *simEvent
	cfg          *config.Config
	backends     map[string]*backendModel
	border       []string
	clients      []*clientModel
	seq          int
	seg          simnet.SegMode
	panics       []string // 'recovered panic' lines of gate's log, see capturePanics
	clientWindow int      // bytes in flight on client links (0 = simnet default); set before addClient
	connN        int
	dialLog      []dialRec
}

type dialRec struct {
	Seq    int
	Server string
	Player string
	By     string // structural id of the goroutine that dialled
}

func (w *classicWorld) nextSeq() int { w.seq++; return w.seq }

func textComp(s string) component.Component { return &component.Text{Content: s} }

// offlineUUID is the harness's own computation of the vanilla offline UUID:
// UUID.nameUUIDFromBytes("OfflinePlayer:"+name) = MD5 with version 3 / IETF variant bits.
func offlineUUID(name string) uuid.UUID {
	h := md5.Sum([]byte("OfflinePlayer:" + name))
	h[6] = h[6]&0x0f | 0x30
	h[8] = h[8]&0x3f | 0x80
	return uuid.UUID(h)
}

var classicProtocols = []proto.Protocol{
	version.Minecraft_1_8.Protocol, version.Minecraft_1_12_2.Protocol, version.Minecraft_1_15.Protocol,
	version.Minecraft_1_19_4.Protocol, version.Minecraft_1_20.Protocol,
	version.Minecraft_1_20_2.Protocol, version.Minecraft_1_20_3.Protocol, version.Minecraft_1_20_5.Protocol, version.Minecraft_1_21.Protocol,
	version.Minecraft_1_21_4.Protocol,
}

// pickProtocol draws a protocol family. 0 => 1.20.1-style (763) is not first; the first
// entry is the "unsurprising" default 1.8? Keep a modern default instead:
func pickProtocol(r *Run) proto.Protocol {
	order := []proto.Protocol{version.Minecraft_1_20_2.Protocol, version.Minecraft_1_20.Protocol, version.Minecraft_1_21.Protocol, version.Minecraft_1_8.Protocol,
		version.Minecraft_1_12_2.Protocol, version.Minecraft_1_15.Protocol, version.Minecraft_1_19_4.Protocol, version.Minecraft_1_20_3.Protocol,
		version.Minecraft_1_20_5.Protocol, version.Minecraft_1_21_4.Protocol}
	return order[r.W.Pick(len(order))]
}

// newClassic builds the world. mutate may change the config before proxy.New.
func newClassic(r *Run, servers []string, mutate func(cfg *config.Config)) *classicWorld {
	return newClassicAuth(r, servers, mutate, nil)
}

// newClassicAuth is newClassic with an optional authenticator factory (online mode).
func newClassicAuth(r *Run, servers []string, mutate func(cfg *config.Config), mkAuth func(w *classicWorld) auth.Authenticator) *classicWorld {
	w := &classicWorld{r: r, backends: map[string]*backendModel{}}
	w.s = r.NewSim(3_000_000)
	w.seg = r.SegChoice()
	cfg := config.DefaultConfig
	cfg.OnlineMode = false
	cfg.Forwarding.Mode = config.NoneForwardingMode
	cfg.Servers = map[string]string{}
	cfg.Try = append([]string(nil), servers...)
	cfg.ForcedHosts = map[string][]string{}
	// Gate multiplies these (already-Duration) values by time.Millisecond; microseconds
	// here give second-scale timeouts on the simulated clock.
	cfg.ConnectionTimeout = configutil.Duration(5 * time.Microsecond)
	cfg.ReadTimeout = configutil.Duration(30 * time.Microsecond)
	cfg.Quota.Connections.Enabled = false
	cfg.Quota.Logins.Enabled = false
	cfg.PacketLimiter.PacketsPerSecond = -1
	cfg.PacketLimiter.BytesPerSecond = -1
	cfg.Compression.Threshold = []int{256, -1, 0, 64}[r.W.Pick(4)]
	cfg.BuiltinCommands = false
	if mutate != nil {
		mutate(&cfg)
	}
	w.cfg = &cfg
	w.ev = newSimEvent()
	opts := proxy.Options{Config: &cfg, EventMgr: w.ev}
	if mkAuth != nil {
		opts.Authenticator = mkAuth(w)
	}
	p, err := proxy.New(opts)
	if err != nil {
		r.HarnessError("proxy.New: %v", err)
		r.Abort()
	}
	w.p = p
	if r.Replay && os.Getenv("VSIM_GATELOG") != "" {
		p.VerifSetLogger(funcr.New(func(prefix, args string) { r.Logf("gate: %s %s", prefix, args) }, funcr.Options{Verbosity: 2}))
	}
	for i, name := range servers {
		b := &backendModel{index: i, name: name, addr: simnet.TCP(fmt.Sprintf("10.5.0.%d", i+1), 25565), w: w, Beh: backendBehavior{Compression: -1}}
		w.backends[name] = b
		w.border = append(w.border, name)
		var info proxy.ServerInfo = b
		if classicWrapInfo != nil {
			info = classicWrapInfo(b)
		}
		if _, err := p.Register(info); err != nil {
			r.HarnessError("Register: %v", err)
			r.Abort()
		}
	}
	return w
}

// addClient creates a client actor running script in its own simulated goroutine.
func (w *classicWorld) addClient(name string, prot proto.Protocol, script func(c *clientModel)) *clientModel {
	c := &clientModel{w: w, idx: len(w.clients), Name: name, Prot: prot, Host: "play.example.com", Port: 25565,
		IP: fmt.Sprintf("172.16.%d.%d", len(w.clients)/200, 1+len(w.clients)%200), Phase: "new", AutoKeepAlive: true}
	w.clients = append(w.clients, c)
	w.s.GoNamed(fmt.Sprintf("client%d", c.idx), func() {
		defer func() { c.Done = true }()
		script(c)
	})
	return c
}

func (w *classicWorld) allClientsDone() bool {
	for _, c := range w.clients {
		if !c.Done {
			return false
		}
	}
	return true
}

// coolDown stops faults, lets everything settle: closes nothing by itself; runs until
// quiescent for `d` of simulated time.
func (w *classicWorld) settle(d time.Duration) string {
	return w.s.RunUntil(d, nil)
}

func simrtSleep(d time.Duration) { simrt.Sleep(d, "harness.sleep") }

// capturePanics records every panic gate's read loops recover (they are only logged):
// scenarios that opt in report them, because a handler that panics on peer input silently
// drops that input.
func (w *classicWorld) capturePanics() {
	w.p.VerifSetLogger(funcr.New(func(prefix, args string) {
		if strings.Contains(args, "recovered panic") {
			w.panics = append(w.panics, args)
		}
		if w.r.Replay && os.Getenv("VSIM_GATELOG") != "" {
			w.r.Logf("gate: %s %s", prefix, args)
		}
	}, funcr.Options{Verbosity: 0}))
}

// classicWrapInfo, when set by a scenario before newClassic, wraps the ServerInfo that is
// registered for each backend (e.g. to add an optional hook interface). Reset by the scenario.
var classicWrapInfo func(b *backendModel) proxy.ServerInfo

// hookedInfo is a backend whose ServerInfo implements proxy.HandshakeAddresser.
type hookedInfo struct {
	*backendModel
	got []string // the default addresses the hook was given
}

func (h *hookedInfo) HandshakeAddr(defaultPlayerVirtualHost string, _ proxy.Player) string {
	h.got = append(h.got, defaultPlayerVirtualHost)
	return "hooked." + defaultPlayerVirtualHost
}
