package worlds

import (
	"fmt"
	"regexp"
	"strconv"
	"time"

	"go.minekube.com/gate/pkg/edition/java/lite"
	liteconfig "go.minekube.com/gate/pkg/edition/java/lite/config"
	"go.minekube.com/gate/pkg/util/configutil"
	"go.minekube.com/gate/pkg/zzverif/mcpeer"
	"go.minekube.com/gate/pkg/zzverif/simnet"
	"go.minekube.com/gate/pkg/zzverif/simrt"
)

// C32 — Lite ping cache never serves status from before a reload.
//
// Real proxy in Lite mode with ping caching; 1-6 status clients (two protocols) issue
// status requests at tape-chosen simulated times (including gaps beyond the TTL); backends
// answer slowly, fail, and stamp every response with a unique serial; a reload actor calls
// Proxy.ApplyLiveConfig with changed routes (which resets the cache and bumps the route
// generation) at tape-chosen moments, i.e. between "generation read", "singleflight join",
// "load returns" and "store". Oracle: a request that starts after a reset returned never
// carries a serial whose fetch completed before that reset; a cached serial is never served
// to a request starting TTL or more after it was stored; at most one fetch in flight per
// (backend, protocol) between resets; the fallback is used only when every backend failed.
func init() {
	Register(&Scenario{Prop: "C32", Desc: "lite ping cache: no status from before a reload; TTL; single flight", Run: runC32,
		Quick: 400, Thorough: 60000,
		Real:  "proxy status handler -> lite.ResolveStatusResponseWithGeneration, pingStatusCache (generation, singleflight, ttlcache), Proxy.ApplyLiveConfig -> ResetPingCache",
		Model: "raw status clients, backend status responders with serials, reload actor"})
}

var serialRe = regexp.MustCompile(`serial-(\d+)@([a-z0-9]+)`)

func runC32(r *Run) {
	ttl := []time.Duration{10 * time.Second, 2 * time.Second, 30 * time.Second}[r.W.Pick(3)]
	withFallback := r.W.Pick(2) == 0
	b1, b2 := "10.3.0.1:25565", "10.3.0.2:25565"
	if r.W.Pick(3) == 0 {
		b2 = "10.3.0.1:25566" // two backends on one host, told apart by the port only
	}
	variant := 0 // changes a later route without changing the number of routes
	mkRoutes := func(extra int) []liteconfig.Route {
		rt := liteconfig.Route{Host: []string{"*"}, Backend: []string{b1, b2}, CachePingTTL: configutil.Duration(ttl)}
		if withFallback {
			rt.Fallback = &liteconfig.Status{MOTD: nil}
		}
		routes := []liteconfig.Route{rt}
		for i := 0; i < extra; i++ {
			routes = append(routes, liteconfig.Route{Host: []string{fmt.Sprintf("extra%d.example", i)}, Backend: []string{fmt.Sprintf("10.3.9.%d:25565", 9+variant)}})
		}
		return routes
	}
	extra := r.W.Pick(3)
	w := newLite(r, mkRoutes(extra), nil)
	defer w.finish()
	lite.ResetPingCache() // the cache is process-global: start every run from an empty one

	type fetch struct {
		serial  int
		backend string
		prot    int32
		start   int
		end     int // seq when the response was written (0: failed / never)
		endTime time.Time
		failed  bool
	}
	var fetches []*fetch
	coarse := r.W.Pick(2) == 1 // delays on a 500 ms grid: responses arrive in the very instant of a reload
	serial := 0
	behave := map[string]int{b1: []int{0, 0, 1, 2}[r.F.Pick(4)], b2: []int{0, 0, 1, 2}[r.F.Pick(4)]} // 0 ok, 1 slow, 2 fail(close)
	failAll := r.F.Pick(8) == 0
	for _, addr := range []string{b1, b2} {
		addr := addr
		name := map[string]string{b1: "b1", b2: "b2"}[addr]
		w.backend[addr] = &liteBackend{OnConn: func(bc *liteBackendConn) {
			f := &fetch{backend: name, start: w.nextSeq()}
			fetches = append(fetches, f)
			fr := mcpeer.NewFrameReader()
			buf := make([]byte, 2048)
			got := 0
			for got < 2 {
				n, err := bc.conn.Read(buf)
				if n > 0 {
					fr.Feed(buf[:n])
					for {
						pl, e := fr.Next()
						if e != nil {
							break
						}
						if got == 0 {
							b := mcpeer.NewBuf(pl)
							_ = b.VarInt()
							f.prot = b.VarInt()
						}
						got++
					}
				}
				if err != nil {
					f.failed = true
					return
				}
			}
			if failAll || behave[addr] == 2 {
				r.Fault("backend_status_fail")
				f.failed = true
				_ = bc.conn.Close()
				return
			}
			if behave[addr] == 1 {
				r.Fault("backend_status_slow")
				d := time.Duration(1+r.F.Pick(3000)) * time.Millisecond
				if coarse {
					d = time.Duration(1+r.F.Pick(6)) * 500 * time.Millisecond // lands on the same instants as reloads
				}
				simrt.Sleep(d, "c32.slow")
			}
			serial++
			f.serial = serial
			js := fmt.Sprintf(`{"version":{"name":"x","protocol":%d},"players":{"max":1,"online":0},"description":{"text":"serial-%d@%s"}}`, f.prot, serial, name)
			f.end = w.nextSeq()
			f.endTime = time.Now()
			_, _ = bc.conn.Write(mcpeer.Frame((&mcpeer.W{}).VarInt(0).String(js).B, -1, 0))
			bc.readAll()
		}}
	}
	type reset struct {
		inv, ret int
	}
	var resets []reset
	nResets := r.W.Pick(3)
	resetDelays := make([]time.Duration, nResets)
	for i := range resetDelays {
		resetDelays[i] = time.Duration(r.W.Pick(4000)) * time.Millisecond
		if coarse {
			resetDelays[i] = time.Duration(r.W.Pick(8)) * 500 * time.Millisecond
		}
	}
	resetKinds := make([]int, nResets)
	for i := range resetKinds {
		resetKinds[i] = r.W.Pick(3)
	}
	reloadDone := nResets == 0
	if nResets > 0 {
		w.s.GoNamed("reloader", func() {
			defer func() { reloadDone = true }()
			for i := 0; i < nResets; i++ {
				simrt.Sleep(resetDelays[i], "c32.reload-delay")
				for k, n := 0, r.W.Pick(30); k < n; k++ {
					simrt.Yield("c32.reload-jitter")
				}
				rs := reset{inv: w.nextSeq()}
				if resetKinds[i] == 0 || (resetKinds[i] == 2 && extra == 0) {
					cand := *w.cfg
					extra++
					cand.Lite.Routes = mkRoutes(extra)
					r.Op("reload")
					if err := w.p.ApplyLiveConfig(&cand); err != nil {
						r.HarnessError("ApplyLiveConfig: %v", err)
					}
				} else if resetKinds[i] == 2 {
					// same number of routes, only a later route differs
					cand := *w.cfg
					variant++
					cand.Lite.Routes = mkRoutes(extra)
					r.Op("reload-later-route")
					if err := w.p.ApplyLiveConfig(&cand); err != nil {
						r.HarnessError("ApplyLiveConfig: %v", err)
					}
				} else {
					r.Op("reset-cache")
					lite.ResetPingCache()
				}
				rs.ret = w.nextSeq()
				resets = append(resets, rs)
			}
		})
	}
	type req struct {
		prot      int32
		start     int
		startTime time.Time
		end       int
		serial    int
		backend   string
		fallback  bool
		failed    bool
	}
	nReq := 1 + r.W.Pick(6)
	reqs := make([]*req, nReq)
	done := 0
	for i := 0; i < nReq; i++ {
		i := i
		delay := time.Duration(r.W.Pick(5000)) * time.Millisecond
		if coarse {
			delay = time.Duration(r.W.Pick(10)) * 500 * time.Millisecond
		}
		if r.W.Pick(4) == 0 {
			delay += ttl + time.Duration(r.W.Pick(3000))*time.Millisecond // beyond the TTL
		}
		prot := []int32{763, 765}[r.W.Pick(2)]
		w.s.GoNamed(fmt.Sprintf("statusclient%d", i), func() {
			defer func() { done++ }()
			simrt.Sleep(delay, "c32.client-delay")
			c := w.connect(fmt.Sprintf("172.29.0.%d", i+1))
			q := &req{prot: prot, start: w.nextSeq(), startTime: time.Now()}
			reqs[i] = q
			r.Op("status")
			_, _ = c.conn.Write(append(handshakeFrame(prot, "any.host", 25565, 1), mcpeer.Frame([]byte{0}, -1, 0)...))
			fr := mcpeer.NewFrameReader()
			buf := make([]byte, 4096)
			_ = c.conn.SetReadDeadline(time.Now().Add(20 * time.Second))
			for {
				n, err := c.conn.Read(buf)
				if n > 0 {
					fr.Feed(buf[:n])
					if pl, e := fr.Next(); e == nil {
						b := mcpeer.NewBuf(pl)
						_ = b.VarInt()
						js := b.String()
						q.end = w.nextSeq()
						if m := serialRe.FindStringSubmatch(js); m != nil {
							q.serial, _ = strconv.Atoi(m[1])
							q.backend = m[2]
						} else {
							q.fallback = true
						}
						_ = c.conn.Close()
						return
					}
				}
				if err != nil {
					q.failed = true
					q.end = w.nextSeq()
					if simnet.IsTimeout(err) {
						_ = c.conn.Close()
					}
					return
				}
			}
		})
	}
	why := w.s.RunUntil(120*time.Second, func() bool { return done == nReq && reloadDone })
	if why == "steps" {
		r.Inconclusive("step budget exhausted")
		return
	}
	w.s.RunUntil(time.Second, nil)
	if r.CheckDeadlock() {
		return
	}
	bySerial := map[int]*fetch{}
	for _, f := range fetches {
		if f.serial != 0 {
			bySerial[f.serial] = f
		}
	}
	desc := func() string {
		var fs, qs, rs []string
		for _, f := range fetches {
			fs = append(fs, fmt.Sprintf("{%s p%d serial%d start%d end%d failed=%v}", f.backend, f.prot, f.serial, f.start, f.end, f.failed))
		}
		for _, q := range reqs {
			if q != nil {
				qs = append(qs, fmt.Sprintf("{p%d start%d end%d serial%d fallback=%v failed=%v}", q.prot, q.start, q.end, q.serial, q.fallback, q.failed))
			}
		}
		for _, x := range resets {
			rs = append(rs, fmt.Sprintf("[%d,%d]", x.inv, x.ret))
		}
		return fmt.Sprintf("ttl=%v fallback=%v behave=%v failAll=%v fetches=%v requests=%v resets=%v", ttl, withFallback, behave, failAll, fs, qs, rs)
	}
	for _, q := range reqs {
		if q == nil || q.serial == 0 {
			continue
		}
		f := bySerial[q.serial]
		if f == nil {
			r.Fail("status-serial-unknown", "serial", "a status response carries serial %d which no backend issued: %s", q.serial, desc())
			return
		}
		if f.prot != q.prot {
			r.Fail("status-cached-across-protocols", "protocol", "a protocol-%d request was answered with a status fetched for protocol %d: %s", q.prot, f.prot, desc())
			return
		}
		for _, x := range resets {
			// a fetch that was under way when the reload happened belongs to the old generation,
			// whenever it completed
			if x.ret < q.start && f.end != 0 && f.start < x.ret {
				r.Fail("stale-status-after-reload", "reload", "request started (seq %d) after a reload had returned (seq %d) but was answered with serial %d whose fetch began before that reload returned (fetch seq %d..%d): %s", q.start, x.ret, q.serial, f.start, f.end, desc())
				return
			}
		}
		if !f.endTime.IsZero() && !q.startTime.Before(f.endTime.Add(ttl)) && f.end < q.start {
			r.Fail("status-served-after-ttl", "ttl", "request started %v after serial %d was fetched (TTL %v) and was still answered from the cache: %s", q.startTime.Sub(f.endTime), q.serial, ttl, desc())
			return
		}
	}
	// at most one fetch in flight per (backend, protocol) between resets
	for i, a := range fetches {
		for j, b := range fetches {
			if i >= j || a.backend != b.backend || a.prot != b.prot || a.prot == 0 {
				continue
			}
			ae, be := a.end, b.end
			if a.failed || ae == 0 || b.failed || be == 0 {
				continue
			}
			if a.start < be && b.start < ae {
				// Fetches belong to the generation their originating request read. Only if every
				// request pending while the two fetches overlapped started after the latest reload
				// had returned do they provably share one generation.
				lo, hi := min(a.start, b.start), max(a.start, b.start)
				lastReset := 0
				for _, x := range resets {
					if x.inv < hi && x.ret > lastReset {
						lastReset = x.ret
					}
				}
				same := true
				npend := 0
				for _, q := range reqs {
					if q == nil || q.prot != a.prot || q.start > hi || (q.end != 0 && q.end < lo) {
						continue
					}
					npend++
					if q.start <= lastReset {
						same = false
					}
				}
				if same && npend > 0 {
					r.Fail("two-fetches-in-flight", "singleflight", "two status fetches for %s/protocol %d overlapped (seq [%d,%d] and [%d,%d]) although every pending request started after the last reload: %s", a.backend, a.prot, a.start, ae, b.start, be, desc())
					return
				}
			}
		}
	}
	// fallback only when every backend failed for that request
	for _, q := range reqs {
		if q == nil || !q.fallback {
			continue
		}
		anyOK := false
		for _, f := range fetches {
			if f.start > q.start && f.end != 0 && f.end < q.end && f.prot == q.prot {
				anyOK = true
			}
		}
		for _, addr := range []string{b1, b2} {
			if !failAll && behave[addr] != 2 {
				r.Fail("fallback-although-backend-healthy", "fallback", "a request got the fallback status although backend %s answers every status request (it was %s): %s", addr, map[bool]string{true: "asked", false: "never asked"}[anyOK], desc())
				return
			}
		}
		if anyOK {
			r.Fail("fallback-although-backend-answered", "fallback", "a request got the fallback status although a backend answered its fetch: %s", desc())
			return
		}
	}
	r.State(fmt.Sprintf("ttl%v req%d fetch%d reset%d", ttl, nReq, len(fetches), len(resets)))
	r.Res.Sample = map[string]any{"ttl_s": ttl.Seconds(), "requests": nReq, "fetches": len(fetches), "resets": len(resets), "fallback": withFallback}
}
