package mcpeer

import (
	"fmt"
)

// Independent decoder for the 1.19.3+ player-info packets, written from the protocol
// description: the action EnumSet is a fixed bit set, and for every entry the action
// payloads follow in *enum order* (ADD_PLAYER, INITIALIZE_CHAT, UPDATE_GAME_MODE,
// UPDATE_LISTED, UPDATE_LATENCY, UPDATE_DISPLAY_NAME, UPDATE_LIST_ORDER (1.21.2+),
// UPDATE_HAT (1.21.4+)).

type TabEntry struct {
	ID          [16]byte
	Name        string
	Props       []Prop
	HasChat     bool
	GameMode    int32
	Listed      bool
	Latency     int32
	HasDisplay  bool
	DisplayRaw  []byte // raw encoding of the display name component
	ListOrder   int32
	ShowHat     bool
}

type Prop struct {
	Name, Value, Sig string
	Signed           bool
}

const (
	ActAdd = iota
	ActInitChat
	ActGameMode
	ActListed
	ActLatency
	ActDisplayName
	ActListOrder
	ActHat
)

// SkipNBT skips one nameless NBT value (1.20.3+ network format) and returns its bytes.
func (b *Buf) SkipNBT() []byte {
	start := b.Off
	t := b.Byte()
	b.skipNBTPayload(t, 0)
	if b.Err != nil {
		return nil
	}
	return b.B[start:b.Off]
}

func (b *Buf) skipNBTPayload(t byte, depth int) {
	if b.Err != nil {
		return
	}
	if depth > 64 {
		b.fail(fmt.Errorf("nbt too deep"))
		return
	}
	switch t {
	case 0:
	case 1:
		b.Bytes(1)
	case 2:
		b.Bytes(2)
	case 3, 5:
		b.Bytes(4)
	case 4, 6:
		b.Bytes(8)
	case 7:
		n := b.I32()
		b.Bytes(int(n))
	case 8:
		n := b.U16()
		b.Bytes(int(n))
	case 9:
		et := b.Byte()
		n := b.I32()
		for i := int32(0); i < n && b.Err == nil; i++ {
			b.skipNBTPayload(et, depth+1)
		}
	case 10:
		for b.Err == nil {
			et := b.Byte()
			if et == 0 {
				break
			}
			n := b.U16()
			b.Bytes(int(n))
			b.skipNBTPayload(et, depth+1)
		}
	case 11:
		n := b.I32()
		b.Bytes(int(n) * 4)
	case 12:
		n := b.I32()
		b.Bytes(int(n) * 8)
	default:
		b.fail(fmt.Errorf("bad nbt tag %d", t))
	}
}

// DecodePlayerInfoUpdate decodes the body (after the packet id) of a player-info update.
func DecodePlayerInfoUpdate(body []byte, protocol int) (actions []int, entries []TabEntry, err error) {
	b := NewBuf(body)
	nActs := 6
	if protocol >= 768 {
		nActs = 7
	}
	if protocol >= 769 {
		nActs = 8
	}
	bits := b.Byte() // EnumSet of up to 8 constants: one byte
	for i := 0; i < nActs; i++ {
		if bits&(1<<uint(i)) != 0 {
			actions = append(actions, i)
		}
	}
	if bits>>uint(nActs) != 0 {
		return nil, nil, fmt.Errorf("action bit set %08b uses bits that do not exist in protocol %d", bits, protocol)
	}
	n := b.VarInt()
	if n < 0 || n > 10000 {
		return nil, nil, fmt.Errorf("bad entry count %d", n)
	}
	for i := int32(0); i < n && b.Err == nil; i++ {
		e := TabEntry{ID: b.UUID()}
		for _, a := range actions {
			switch a {
			case ActAdd:
				e.Name = b.String()
				if len(e.Name) > 16 {
					b.fail(fmt.Errorf("profile name %q longer than 16", e.Name))
				}
				np := b.VarInt()
				if np < 0 || np > 16 {
					b.fail(fmt.Errorf("bad property count %d", np))
				}
				for k := int32(0); k < np && b.Err == nil; k++ {
					p := Prop{Name: b.String(), Value: b.String()}
					if b.Bool() {
						p.Signed = true
						p.Sig = b.String()
					}
					e.Props = append(e.Props, p)
				}
			case ActInitChat:
				if b.Bool() {
					e.HasChat = true
					b.UUID()
					b.I64()
					b.ByteArray()
					b.ByteArray()
				}
			case ActGameMode:
				e.GameMode = b.VarInt()
			case ActListed:
				v := b.Byte()
				if v > 1 {
					b.fail(fmt.Errorf("listed flag byte %d is not a boolean", v))
				}
				e.Listed = v == 1
			case ActLatency:
				e.Latency = b.VarInt()
			case ActDisplayName:
				v := b.Byte()
				if v > 1 {
					b.fail(fmt.Errorf("display-name flag byte %d is not a boolean", v))
				}
				if v == 1 {
					e.HasDisplay = true
					if protocol >= 765 {
						e.DisplayRaw = append([]byte(nil), b.SkipNBT()...)
					} else {
						e.DisplayRaw = []byte(b.String())
					}
				}
			case ActListOrder:
				e.ListOrder = b.VarInt()
			case ActHat:
				e.ShowHat = b.Bool()
			}
		}
		entries = append(entries, e)
	}
	if b.Err != nil {
		return nil, nil, b.Err
	}
	if b.Len() != 0 {
		return nil, nil, fmt.Errorf("%d trailing bytes after the last entry", b.Len())
	}
	return actions, entries, nil
}

// DecodePlayerInfoRemove decodes the body of a player-info remove packet.
func DecodePlayerInfoRemove(body []byte) ([][16]byte, error) {
	b := NewBuf(body)
	n := b.VarInt()
	if n < 0 || n > 10000 {
		return nil, fmt.Errorf("bad count %d", n)
	}
	var out [][16]byte
	for i := int32(0); i < n && b.Err == nil; i++ {
		out = append(out, b.UUID())
	}
	if b.Err != nil {
		return nil, b.Err
	}
	if b.Len() != 0 {
		return nil, fmt.Errorf("%d trailing bytes", b.Len())
	}
	return out, nil
}

// ApplyPlayerInfo applies an update to a vanilla client's held tab list.
func ApplyPlayerInfo(held map[[16]byte]*TabEntry, actions []int, entries []TabEntry) {
	has := func(a int) bool {
		for _, x := range actions {
			if x == a {
				return true
			}
		}
		return false
	}
	for i := range entries {
		in := entries[i]
		cur := held[in.ID]
		if has(ActAdd) && cur == nil {
			cur = &TabEntry{ID: in.ID, Name: in.Name, Props: in.Props}
			held[in.ID] = cur
		}
		if cur == nil {
			continue
		}
		for _, a := range actions {
			switch a {
			case ActGameMode:
				cur.GameMode = in.GameMode
			case ActListed:
				cur.Listed = in.Listed
			case ActLatency:
				cur.Latency = in.Latency
			case ActDisplayName:
				cur.HasDisplay, cur.DisplayRaw = in.HasDisplay, in.DisplayRaw
			case ActListOrder:
				cur.ListOrder = in.ListOrder
			case ActHat:
				cur.ShowHat = in.ShowHat
			}
		}
	}
}
