package worlds

import (
	"crypto/sha1"
	"fmt"
	"go.minekube.com/gate/pkg/edition/java/proxy/message"
	"os"
	"strings"
	"time"

	"go.minekube.com/gate/pkg/edition/java/auth"
	"go.minekube.com/gate/pkg/edition/java/config"
	"go.minekube.com/gate/pkg/edition/java/proto/packet"
	"go.minekube.com/gate/pkg/edition/java/proto/version"
	"go.minekube.com/gate/pkg/edition/java/proxy"
	"go.minekube.com/gate/pkg/gate/proto"
	"go.minekube.com/gate/pkg/zzverif/mcpeer"
	"go.minekube.com/gate/pkg/zzverif/simrt"
)

// C08 / C09 — online-mode admission and the session-server id.
//
// Real proxy with the real auth.Authenticator (RSA, server-id digest, JSON) whose HTTP
// client is the session-server model. Clients (independent AES/CFB8, own Java-style
// signed SHA-1 digest via math/big) run tape-chosen login behaviours: honest, forged
// verify token, wrong RSA key, malformed secret, not announced to the session server,
// announced under another username, out-of-order / duplicated login packets, reset while
// hasJoined is in flight. Session-server outcomes and latencies are faults (200, 204, 401,
// 5xx, transport error, hang beyond the 30 s context, slow). A PreLogin subscriber may
// force offline mode or deny.
// C08 oracle: admitted (ServerLoginSuccess decodable under the client's cipher, or a
// registered player) implies every legitimacy condition; honest logins without faults are
// admitted with the profile the session server returned. C09: Gate's hasJoined query
// carries exactly the digest the client computed (checked on every query; secrets biased
// towards sign-bit-set / leading-zero / trailing-zero digests).
func init() {
	Register(&Scenario{Prop: "C08", Desc: "online-mode admission only after verified encryption + session auth", Run: func(r *Run) { runOnline(r, false) },
		Quick: 400, Thorough: 60000,
		Real:  "proxy.Proxy initial-login/auth handlers, real auth.authenticator (RSA decrypt, verify token, GenerateServerID, AuthenticateJoin, profile JSON), netmc encryption switch",
		Model: "client with independent CFB8 + math/big digest; session server = http.RoundTripper model; scripted PreLogin subscriber"})
	Register(&Scenario{Prop: "C09", Desc: "session-server id equals Java's signed SHA-1 hex digest", Run: func(r *Run) { runOnline(r, true) },
		Quick: 50, Thorough: 10000, Race: true,
		// the property is about the id that goes out to the session server
		RaceScope: []string{"/java/auth."},
		Real:   "auth.authenticator.GenerateServerID inside the real three-party online login",
		Model:  "client-side reference digest (math/big, BigInteger.toString(16) semantics) announced to the session-server model",
		Assume: []string{"the digest function is pure; it is claimed as the agreement condition of the three-party login: input space explored = login secrets (biased to digest corner classes)"}})
}

func biasedSecret(r *Run, pub []byte) ([]byte, string) {
	class := []string{"any", "negative", "leading-zero", "positive", "trailing-zero"}[r.W.Pick(5)]
	var best []byte
	for try := 0; try < 400; try++ {
		s := make([]byte, 16)
		r.W.Bytes(s)
		if best == nil {
			best = s
		}
		h := sha1.New()
		h.Write(s)
		h.Write(pub)
		d := h.Sum(nil)
		ok := false
		switch class {
		case "any":
			ok = true
		case "negative":
			ok = d[0]&0x80 != 0
		case "positive":
			ok = d[0]&0x80 == 0
		case "leading-zero":
			ok = d[0]&0xf0 == 0 || d[0] == 0xff // leading zero nibble, or negative with leading f's (=> short hex after negation)
		case "trailing-zero":
			ok = d[19] == 0 || d[19]&0x0f == 0
		}
		if ok {
			return s, class
		}
	}
	return best, "any"
}

func runOnline(r *Run, digestFocus bool) {
	var ss *sessionServer
	onlineCfg := digestFocus || r.W.Pick(4) != 0
	w := newClassicAuth(r, []string{"lobby"}, func(cfg *config.Config) {
		cfg.OnlineMode = onlineCfg
		cfg.Forwarding.Mode = config.LegacyForwardingMode
	}, func(w *classicWorld) auth.Authenticator {
		ss = &sessionServer{w: w, announced: map[string]string{}}
		a, err := newOnlineAuthenticator(ss)
		if err != nil {
			r.HarnessError("auth.New: %v", err)
			r.Abort()
		}
		return a
	})
	proxyEvents(w)
	prots := []proto.Protocol{version.Minecraft_1_20_2.Protocol, version.Minecraft_1_20.Protocol, version.Minecraft_1_8.Protocol, version.Minecraft_1_12_2.Protocol, version.Minecraft_1_19_4.Protocol, version.Minecraft_1_21.Protocol, version.Minecraft_1_15.Protocol}
	prot := prots[r.W.Pick(len(prots))]
	key, _ := proxyRSAKey()
	pubDER := pubKeyDER(key)

	behaviour := "honest"
	if !digestFocus {
		behaviour = []string{"honest", "honest", "forged-token", "wrong-key", "bad-secret-len", "skip-join", "announce-as-other",
			"enc-response-first", "dup-login-start", "early-ack", "unknown-id", "reset-during-auth",
			"empty-token", "prefix-token", "extended-token", "dup-login-other-name"}[r.W.Pick(16)]
	}
	preLogin := "none"
	if !digestFocus {
		preLogin = []string{"none", "none", "none", "force-offline", "force-online", "deny", "plugin-msg", "plugin-msg"}[r.W.Pick(8)]
	}
	if f := os.Getenv("VSIM_C08_FORCE"); f != "" && !digestFocus {
		parts := strings.Split(f, "/")
		behaviour, preLogin = parts[0], parts[1]
	}
	sessMode := ""
	if !digestFocus && r.F.Pick(3) == 2 {
		sessMode = []string{"204", "401", "500", "error", "hang", "slow"}[r.F.Pick(6)]
	}
	ss.Mode = func(n int) string { return sessMode }
	proxyEvents(w).onPreLogin = func(e *proxy.PreLoginEvent) {
		switch preLogin {
		case "force-offline":
			e.ForceOfflineMode()
		case "force-online":
			e.ForceOnlineMode()
		case "deny":
			e.Deny(textComp("denied"))
		case "plugin-msg":
			// the login now waits for the client's plugin response
			if lpc, ok := e.Conn().(proxy.LoginPhaseConnection); ok && prot.GreaterEqual(version.Minecraft_1_13) {
				ch, _ := message.ChannelIdentifierFrom("verif:prelogin")
				if err := lpc.SendLoginPluginMessage(ch, []byte("Q"), c08consumer{}); err == nil {
					r.Probe("prelogin_plugin_message_sent")
				}
			}
		}
	}
	expectEncryption := preLogin != "force-offline" && preLogin != "deny" && (onlineCfg || preLogin == "force-online")
	r.Res.Variant = behaviour + "/" + preLogin + "/" + sessMode

	secret, class := biasedSecret(r, pubDER)
	r.Probe("digest_class_" + class)
	ob := &onlineBehaviour{Secret: secret}
	name := "Alice"
	switch behaviour {
	case "forged-token":
		ob.ForgeToken = true
	case "wrong-key":
		ob.WrongKey = true
	case "bad-secret-len":
		ob.BadSecretLen = true
	case "skip-join":
		ob.SkipJoin = true
	case "announce-as-other":
		ob.AnnounceAs = "Bob"
	case "empty-token":
		ob.TokenMode = "empty"
	case "prefix-token":
		ob.TokenMode = "prefix"
	case "extended-token":
		ob.TokenMode = "extended"
	}
	// C09: further honest players log in at the same time, each with its own secret; every
	// query must carry the digest of the player it names
	obByName := map[string]*onlineBehaviour{name: ob}
	var extras []*clientModel
	if digestFocus {
		for i, n := 0, r.W.Pick(3); i < n; i++ {
			en := []string{"Bob", "Cara"}[i]
			esec, _ := biasedSecret(r, pubDER)
			eob := &onlineBehaviour{Secret: esec}
			obByName[en] = eob
			extras = append(extras, w.addClient(en, prot, func(c *clientModel) {
				installOnline(c, ss, eob)
				r.Op("honest-concurrent")
				c.Connect()
				c.Phase = "login"
				if c.Handshake(2) != nil {
					return
				}
				_ = c.sendRaw(loginStartPayload(prot, en, onlineUUID(en)))
				if c.readUntilJoined() {
					c.StartReader()
					simrt.Sleep(50*time.Millisecond, "c09.stay")
				}
				c.Close()
			}))
		}
	}
	var cl *clientModel
	sawEncReq := false
	var lastReq *packet.EncryptionRequest
	deferred := false
	cl = w.addClient(name, prot, func(c *clientModel) {
		installOnline(c, ss, ob)
		inner := c.Online.Respond
		c.Online.Respond = func(c *clientModel, req *packet.EncryptionRequest) {
			sawEncReq = true
			if strings.HasPrefix(behaviour, "dup-login") {
				// hostile client: waits for the requests to stop coming and answers the last one
				lastReq = req
				if !deferred {
					deferred = true
					simrt.Go(func() {
						simrt.Sleep(40*time.Millisecond, "c08.defer-response")
						inner(c, lastReq)
					})
				}
				return
			}
			inner(c, req)
			if behaviour == "reset-during-auth" {
				r.Fault("client_reset_while_hasjoined_in_flight")
				for i, n := 0, r.F.Pick(6); i < n; i++ {
					simrt.Yield("c08.reset-delay")
				}
				c.conn.Reset()
			}
		}
		r.Op(behaviour)
		c.Connect()
		c.Phase = "login"
		if c.Handshake(2) != nil {
			return
		}
		loginStart := func() error { return c.sendRaw(loginStartPayload(prot, name, onlineUUID(name))) }
		switch behaviour {
		case "enc-response-first":
			_ = c.send(&packet.EncryptionResponse{SharedSecret: make([]byte, 128), VerifyToken: make([]byte, 128)})
			_ = loginStart()
		case "dup-login-start":
			_ = loginStart()
			_ = loginStart()
		case "dup-login-other-name":
			_ = loginStart()
			_ = c.sendRaw(loginStartPayload(prot, "Mallory", onlineUUID("Mallory")))
		case "early-ack":
			_ = loginStart()
			if prot.GreaterEqual(version.Minecraft_1_20_2) {
				_ = c.send(&packet.LoginAcknowledged{})
			} else {
				_ = c.sendRaw([]byte{0x03}) // an id the login state does not know for this protocol
			}
		case "unknown-id":
			_ = loginStart()
			_ = c.sendRaw((&mcpeer.W{}).VarInt(0x6f).Raw([]byte{1, 2, 3}).B)
		default:
			_ = loginStart()
		}
		if c.readUntilJoined() {
			c.StartReader()
			simrt.Sleep(50*time.Millisecond, "c08.stay")
		}
		c.Close()
	})
	// a player must never be registered unless legitimate
	registeredSeen := false
	w.s.OnStep = func() {
		simrt.DriverCall(func() {
			if w.p.PlayerByName(name) != nil {
				registeredSeen = true
			}
		})
	}
	why := w.s.RunUntil(90*time.Second, func() bool { return w.allClientsDone() })
	if why == "steps" {
		r.Inconclusive("step budget exhausted")
		return
	}
	w.s.OnStep = nil
	if r.CheckDeadlock() {
		return
	}
	admitted := cl.LoginSuccess != nil || registeredSeen
	// legitimacy
	honestCrypto := !ob.ForgeToken && !ob.WrongKey && !ob.BadSecretLen && ob.TokenMode == ""
	orderOK := behaviour != "enc-response-first" && behaviour != "dup-login-start" && behaviour != "dup-login-other-name" && behaviour != "early-ack" && behaviour != "unknown-id"
	got200 := false
	for _, q := range ss.Queries {
		if q.Outcome == "200" && q.Username == name && q.ServerID == ob.ServerIDSeen {
			got200 = true
		}
	}
	legit := false
	switch {
	case preLogin == "deny":
		legit = false
	case !expectEncryption:
		// offline admission needs no crypto and happens on the login-start packet itself;
		// whatever the client sends afterwards can only close the connection again
		legit = true
	default:
		legit = honestCrypto && orderOK && !ob.SkipJoin && ob.AnnounceAs == "" && got200
	}
	desc := func() string {
		var qs []string
		for _, q := range ss.Queries {
			qs = append(qs, fmt.Sprintf("%s/%s=>%s", q.ServerID, q.Username, q.Outcome))
		}
		return fmt.Sprintf("protocol=%d online-config=%v prelogin=%s behaviour=%s session-mode=%q saw-encryption-request=%v client=%v kick=%q registered-seen=%v client-digest=%s queries=%v",
			prot, onlineCfg, preLogin, behaviour, sessMode, sawEncReq, clientPhases(w), cl.KickText(), registeredSeen, ob.ServerIDSeen, qs)
	}
	// C09: every query Gate made for an honest client carries the client's digest
	for _, q := range ss.Queries {
		if eob := obByName[q.Username]; eob != nil && eob != ob {
			if q.ServerID != eob.ServerIDSeen {
				r.Fail("server-id-digest-differs", "digest-concurrent", "Gate asked the session server about serverId %q for %s, whose client computed %q: %s", q.ServerID, q.Username, eob.ServerIDSeen, desc())
				return
			}
			continue
		}
		if ob.Responded && honestCrypto && q.ServerID != ob.ServerIDSeen {
			r.Fail("server-id-digest-differs", "digest-"+class, "Gate asked the session server about serverId %q, the client computed %q (Java signed SHA-1 hex of secret+public key): %s", q.ServerID, ob.ServerIDSeen, desc())
			return
		}
		if q.Username != name {
			r.Fail("hasjoined-username-wrong", "query", "Gate asked the session server about username %q, the client logged in as %q: %s", q.Username, name, desc())
			return
		}
	}
	if !orderOK && len(ss.Queries) > 0 {
		r.Fail("login-continued-after-out-of-order-packet", behaviour+"/"+preLogin, "the client sent a login packet out of order or twice, yet the login went on to the session server: %s", desc())
		return
	}
	if admitted && !legit {
		r.Fail("unauthenticated-client-admitted", behaviour+"/"+preLogin, "a client that must not be admitted was admitted: %s", desc())
		return
	}
	if expectEncryption && admitted && !sawEncReq {
		r.Fail("admitted-without-encryption", "crypto", "online-mode login completed without an EncryptionRequest: %s", desc())
		return
	}
	faultFree := sessMode == "" && behaviour != "reset-during-auth"
	if digestFocus || (faultFree && behaviour == "honest" && preLogin != "deny") {
		if !admitted || cl.LoginSuccess == nil {
			r.Fail("honest-login-refused", "digest-"+class, "an honest client was not admitted although nothing was wrong: %s", desc())
			return
		}
		if expectEncryption {
			if cl.LoginSuccess.UUID != onlineUUID(name) || cl.LoginSuccess.Username != name {
				r.Fail("profile-not-from-session-server", "profile", "ServerLoginSuccess carries %s/%q; the session server returned %x/%q: %s", cl.LoginSuccess.UUID, cl.LoginSuccess.Username, onlineUUID(name), name, desc())
				return
			}
		}
	}
	for _, e := range extras {
		if e.LoginSuccess == nil {
			r.Fail("honest-login-refused", "digest-concurrent", "the honest player %s, logging in next to %s, was not admitted: %s", e.Name, name, desc())
			return
		}
	}
	r.State(strings.Join([]string{behaviour, preLogin, sessMode, fmt.Sprint(admitted), class}, "|"))
	r.Res.Sample = map[string]any{"protocol": int(prot), "behaviour": behaviour, "prelogin": preLogin, "session_mode": sessMode, "admitted": admitted, "legit": legit, "digest_class": class, "digest": ob.ServerIDSeen, "queries": len(ss.Queries)}
}

type c08consumer struct{}

func (c08consumer) OnMessageResponse([]byte) error { return nil }
