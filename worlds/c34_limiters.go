package worlds

import (
	"context"
	"fmt"
	"net"
	"time"

	"go.minekube.com/gate/pkg/edition/java/config"
	"go.minekube.com/gate/pkg/edition/java/netmc"
	"go.minekube.com/gate/pkg/edition/java/proto/state"
	"go.minekube.com/gate/pkg/gate/proto"
	"go.minekube.com/gate/pkg/internal/packetlimiter"
	"go.minekube.com/gate/pkg/zzverif/mcpeer"
	"go.minekube.com/gate/pkg/zzverif/simnet"
	"go.minekube.com/gate/pkg/zzverif/simrt"
)

// C34 — rate limiters enforce exactly their windows and buckets.
//
// Variant "quota": connection attempts from generated addresses (v4, v4-mapped v6, v6)
// arrive at generated simulated instants (bursts at one instant, gaps far beyond the refill
// time) through the real Proxy.HandleConn with the connection quota enabled. Oracle: two
// addresses draw from one budget iff the reference puts them into one /24 (/64) group; per
// group the number of admitted connections up to any instant is at most burst + rate x
// elapsed; a fresh group always gets its first `burst` attempts admitted, whatever other
// groups did. Variant "packets": a client sends packets of generated sizes at generated
// instants through a real minecraftConn with a packet limiter (packets/s and/or bytes/s,
// window); the connection is closed exactly at the packet where a naive O(n) sliding-window
// count exceeds rate x window. Instants are generated so that no two events are exactly one
// window apart (the property does not fix the inclusiveness of the window edge).
func init() {
	Register(&Scenario{Prop: "C34", Desc: "rate limiters: address grouping, token buckets, sliding windows", Run: runC34,
		Quick: 600, Thorough: 100000,
		Real:  "Proxy.HandleConn + addrquota.Quota (x/time/rate on the simulated clock); netmc read loop + packetlimiter.Limiter/counter",
		Model: "clients at simulated instants (clock jumps between events); reference grouping and naive sliding-window counter"})
}

func refGroup(ip string) string {
	p := net.ParseIP(ip)
	if p == nil {
		return ""
	}
	if v4 := p.To4(); v4 != nil {
		return fmt.Sprintf("v4:%d.%d.%d", v4[0], v4[1], v4[2])
	}
	return fmt.Sprintf("v6:%x", []byte(p[:8]))
}

func runC34(r *Run) {
	if r.W.Pick(2) == 0 {
		runC34Quota(r)
	} else {
		runC34Packets(r)
	}
}

func runC34Quota(r *Run) {
	r.Res.Variant = "quota"
	ops := []float32{1, 2, 5, 0.5}[r.W.Pick(4)]
	burst := 1 + r.W.Pick(5)
	w := newClassic(r, []string{"lobby"}, func(cfg *config.Config) {
		cfg.Quota.Connections = config.QuotaSettings{Enabled: true, OPS: ops, Burst: burst, MaxEntries: 1000}
	})
	addrs := []string{"10.1.2.3", "10.1.2.200", "10.1.3.3", "::ffff:10.1.2.9", "2001:db8:1:2::5", "2001:db8:1:2:ffff::1", "2001:db8:1:3::1", "192.0.2.77"}
	nEv := 3 + r.W.Pick(40)
	type ev struct {
		ip      string
		at      time.Duration
		allowed bool
		done    bool
	}
	evs := make([]*ev, nEv)
	t := time.Duration(0)
	for i := range evs {
		switch r.W.Pick(5) {
		case 0: // burst at the same instant
		case 1:
			t += time.Duration(1+r.W.Pick(300)) * time.Millisecond
		case 2:
			t += time.Duration(1+r.W.Pick(3000)) * time.Millisecond
		case 3:
			t += time.Duration(10+r.W.Pick(120)) * time.Second // clock jump far beyond the refill time
			r.Fault("clock_jump")
		default:
			t += time.Duration(1+r.W.Pick(50)) * time.Millisecond
		}
		evs[i] = &ev{ip: addrs[r.W.Pick(len(addrs))], at: t}
	}
	done := 0
	start := time.Now()
	w.s.GoNamed("connector", func() {
		for i, e := range evs {
			if d := e.at - time.Since(start); d > 0 {
				simrt.Sleep(d, "c34.wait")
			}
			e := e
			r.Op("connect")
			cl, gate := w.r.Pipe(fmt.Sprintf("q%d", i), fmt.Sprintf("gate<q%d", i), simnet.Options{AddrA: &net.TCPAddr{IP: net.ParseIP(e.ip), Port: 30000 + i}, AddrB: simnet.TCP("10.0.0.1", 25565)})
			// HandleConn runs in this goroutine's child so that attempts at one instant are
			// processed in issue order (the quota decision is taken first thing in HandleConn)
			simrt.Go(func() { w.p.HandleConn(gate) })
			simrt.Go(func() {
				defer func() { done++; e.done = true }()
				_, _ = cl.Write(append(handshakeFrame(763, "h", 25565, 1), mcpeer.Frame([]byte{0}, -1, 0)...))
				buf := make([]byte, 4096)
				_ = cl.SetReadDeadline(time.Now().Add(10 * time.Second))
				n, _ := cl.Read(buf)
				e.allowed = n > 0
				_ = cl.Close()
			})
			// let the decision be taken before the next attempt is issued
			for k := 0; k < 400 && !e.done; k++ {
				simrt.Yield("c34.settle")
			}
		}
	})
	why := w.s.RunUntil(3600*time.Second, func() bool { return done == nEv })
	if why != "done" {
		if why == "steps" {
			r.Inconclusive("step budget exhausted")
		} else {
			r.HarnessError("C34 quota run ended with %s (%d/%d)", why, done, nEv)
		}
		return
	}
	// reference
	type grp struct {
		first   time.Duration
		allowed int
		seen    int
	}
	groups := map[string]*grp{}
	for i, e := range evs {
		g := refGroup(e.ip)
		st := groups[g]
		if st == nil {
			st = &grp{first: e.at}
			groups[g] = st
		}
		st.seen++
		if e.allowed {
			st.allowed++
		}
		limit := float64(burst) + float64(ops)*(e.at-st.first).Seconds() + 1e-6
		if float64(st.allowed) > limit {
			r.Fail("quota-exceeded", "upper-bound", "group %s (address %s): %d connections admitted within %v of its first event; burst %d + rate %v x elapsed allows %.2f (event #%d)", g, e.ip, st.allowed, e.at-st.first, burst, ops, limit, i)
			return
		}
	}
	// independence: whatever other groups did, a group gets at least its burst. (Counted per
	// group over the run: attempts issued at one instant may be decided in any order.)
	for g, st := range groups {
		if want := min(burst, st.seen); st.allowed < want {
			r.Fail("fresh-group-blocked", "independence", "group %s made %d attempts (burst %d) and only %d were admitted: another group's traffic consumed its budget", g, st.seen, burst, st.allowed)
			return
		}
	}
	r.State(fmt.Sprintf("quota ops%v b%d n%d g%d", ops, burst, nEv, len(groups)))
	r.Res.Sample = map[string]any{"variant": "quota", "ops": ops, "burst": burst, "events": nEv, "groups": len(groups)}
}

func runC34Packets(r *Run) {
	r.Res.Variant = "packets"
	s := r.NewSim(600000)
	window := []time.Duration{time.Second, 3 * time.Second, 7 * time.Second, 500 * time.Millisecond}[r.W.Pick(4)]
	pps := []int{0, 5, 20, 3}[r.W.Pick(4)]
	bps := []int{0, 0, 400, 2000}[r.W.Pick(4)]
	if pps == 0 && bps == 0 {
		pps = 10
	}
	lim := packetlimiter.New(pps, bps, window)
	peer, base := r.Pipe("client", "gate", simnet.Options{})
	conn, readLoop := netmc.NewMinecraftConn(context.Background(), base, proto.ServerBound, 3600*time.Second, 30*time.Second, -1, lim)
	seq := 0
	h := &recHandler{name: "h", seq: &seq, run: r}
	conn.SetActiveSessionHandler(state.Play, h)
	nPk := 5 + r.W.Pick(120)
	type pk struct {
		at   time.Duration
		size int // frame bytes on the wire
	}
	pks := make([]pk, nPk)
	t := time.Duration(0)
	used := map[time.Duration]bool{}
	for i := range pks {
		switch r.W.Pick(6) {
		case 0: // same instant burst
		case 1:
			t += window + time.Duration(1+r.W.Pick(5000))*time.Millisecond // gap beyond the window
			r.Fault("gap_beyond_window")
		default:
			t += time.Duration(1+r.W.Pick(int(window/time.Millisecond)/4+1)) * time.Millisecond
		}
		// never exactly one window after an earlier event
		for used[t-window] {
			t += time.Millisecond
		}
		used[t] = true
		n := 2 + r.W.Pick(60)
		pks[i] = pk{at: t, size: n + 1} // 1-byte length prefix for payloads < 128 bytes
	}
	clientDone := false
	start := time.Now()
	sent := 0
	s.GoNamed("readloop", func() { readLoop() })
	s.GoNamed("client", func() {
		defer func() { clientDone = true }()
		for _, p := range pks {
			if d := p.at - time.Since(start); d > 0 {
				simrt.Sleep(d, "c34.wait")
			}
			payload := make([]byte, p.size-1)
			payload[0] = c01ID
			r.Op("packet")
			if _, err := peer.Write(mcpeer.Frame(payload, -1, 0)); err != nil {
				return
			}
			sent++
			// let the read loop account it before the next packet
			for k := 0; k < 200 && h.handled < sent && !peer.PeerGone(); k++ {
				simrt.Yield("c34.settle")
			}
			if peer.PeerGone() {
				return
			}
		}
	})
	why := s.RunUntil(7200*time.Second, func() bool { return clientDone })
	if why == "steps" {
		r.Inconclusive("step budget exhausted")
		return
	}
	s.RunUntil(time.Second, nil)
	// reference: first packet k at which the trailing-window count exceeds rate x window
	wantClose := -1
	for k := range pks {
		cnt, bytes := 0, 0
		for i := 0; i <= k; i++ {
			if pks[i].at > pks[k].at-window {
				cnt++
				bytes += pks[i].size
			}
		}
		if (pps > 0 && float64(cnt) > float64(pps)*window.Seconds()) || (bps > 0 && float64(bytes) > float64(bps)*window.Seconds()) {
			wantClose = k
			break
		}
	}
	handled := h.handled
	closed := netmc.Closed(conn)
	desc := fmt.Sprintf("window=%v pps=%d bps=%d packets=%d handled=%d closed=%v reference-closes-at=%d", window, pps, bps, nPk, handled, closed, wantClose)
	if wantClose < 0 {
		if closed || handled != nPk {
			r.Fail("limiter-closed-too-early", "early", "the reference never exceeds the limit but the connection was closed / packets dropped: %s", desc)
			return
		}
	} else {
		if handled > wantClose {
			r.Fail("limiter-closed-too-late", "late", "packet #%d exceeds rate x window in the trailing window, yet %d packets were handled: %s", wantClose, handled, desc)
			return
		}
		if handled < wantClose {
			r.Fail("limiter-closed-too-early", "early", "the connection was closed at packet #%d, the sliding-window count is first exceeded at #%d: %s", handled, wantClose, desc)
			return
		}
		if !closed {
			r.Fail("limiter-did-not-close", "open", "limit exceeded at packet #%d but the connection is still open: %s", wantClose, desc)
			return
		}
	}
	if nPk > 8 {
		r.Probe("ring_buffer_resized")
	}
	r.State(fmt.Sprintf("pk w%v pps%d bps%d close%d", window, pps, bps, wantClose))
	r.Res.Sample = map[string]any{"variant": "packets", "window_s": window.Seconds(), "pps": pps, "bps": bps, "packets": nPk, "closes_at": wantClose}
}
