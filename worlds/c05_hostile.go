package worlds

import (
	"bytes"
	"context"
	"fmt"
	"reflect"
	"runtime"
	"sort"
	"strings"
	"time"

	"github.com/go-logr/logr"
	"github.com/go-logr/logr/funcr"
	"go.minekube.com/gate/pkg/edition/java/netmc"
	"go.minekube.com/gate/pkg/edition/java/proto/state"
	"go.minekube.com/gate/pkg/edition/java/proto/version"
	"go.minekube.com/gate/pkg/gate/proto"
	"go.minekube.com/gate/pkg/zzverif/mcpeer"
	"go.minekube.com/gate/pkg/zzverif/simnet"
	"go.minekube.com/gate/pkg/zzverif/simrt"
)

// C05 — decoding untrusted packets never crashes or blows up memory.
//
// A real netmc connection (either direction) in a tape-chosen state and protocol version
// with a recording session handler; a hostile peer sends frames whose packet id is usually
// one the registry knows and whose body is random bytes, all-0xFF, a hostile count/length
// prefix followed by a few bytes, or a mutated (truncated / bit-flipped / extended) encoding
// of the zero value of that packet type. The stream is segmented by simnet. Oracle: the
// process survives; no panic is recovered by the read loop while decoding (gate's log is
// captured); the read loop consumes every frame or ends the connection within the run (no
// hang); the bytes allocated while the frames are processed stay below 64 x the bytes sent
// plus a fixed 24 MiB.
func init() {
	Register(&Scenario{Prop: "C05", Desc: "hostile packet bodies: no crash, no decode panic, no hang, bounded allocation", Run: runC05,
		Quick: 4000, Thorough: 1500000, Crash: true,
		Real:  "netmc read loop, codec.Decoder, every registered packet's Decode for the chosen (state, direction, protocol)",
		Model: "hostile peer over simnet (segmentation); recording session handler; captured gate log"})
}

func runC05(r *Run) {
	s := r.NewSim(600000)
	dir := proto.ServerBound
	if r.W.Pick(2) == 1 {
		dir = proto.ClientBound
	}
	states := []*state.Registry{state.Handshake, state.Status, state.Login, state.Config, state.Config, state.Play, state.Play, state.Play}
	st := states[r.W.Pick(len(states))]
	prots := []proto.Protocol{version.Minecraft_1_7_2.Protocol, version.Minecraft_1_8.Protocol, version.Minecraft_1_12_2.Protocol, version.Minecraft_1_13.Protocol, version.Minecraft_1_16_4.Protocol,
		version.Minecraft_1_19.Protocol, version.Minecraft_1_19_1.Protocol, version.Minecraft_1_19_3.Protocol, version.Minecraft_1_20_2.Protocol, version.Minecraft_1_20_3.Protocol,
		version.Minecraft_1_20_5.Protocol, version.Minecraft_1_21.Protocol, version.Minecraft_1_21_2.Protocol, version.Minecraft_1_21_4.Protocol, version.MaximumVersion.Protocol}
	prot := prots[r.W.Pick(len(prots))]
	if st == state.Config && prot.Lower(version.Minecraft_1_20_2) {
		st = state.Play
	}
	var panics []string
	log := funcr.New(func(prefix, args string) {
		if strings.Contains(args, "recovered panic") {
			panics = append(panics, args)
		}
	}, funcr.Options{Verbosity: 0})
	peer, base := r.Pipe("hostile", "gate", simnet.Options{Seg: r.SegChoice()})
	conn, readLoop := netmc.NewMinecraftConn(logr.NewContext(context.Background(), log), base, dir, 30*time.Second, 30*time.Second, -1, nil)
	conn.SetProtocol(prot)
	h := &c05handler{}
	conn.SetActiveSessionHandler(st, h)

	reg := state.FromDirection(dir, st, prot)
	var ids []int
	for id := range reg.PacketIDs {
		ids = append(ids, int(id))
	}
	sort.Ints(ids)
	nFrames := 1 + r.W.Pick(8)
	var frames [][]byte
	var kinds []string
	total := 0
	for i := 0; i < nFrames; i++ {
		id := r.W.Pick(0x90)
		if len(ids) > 0 && r.W.Pick(5) != 0 {
			id = ids[r.W.Pick(len(ids))]
		}
		var body []byte
		kind := ""
		switch r.W.Pick(7) {
		case 0:
			kind = "random"
			body = genFixed(r, []int{0, 1, 5, 64, 1000, 20000}[r.W.Pick(6)])
		case 1:
			kind = "all-ff"
			body = bytes.Repeat([]byte{0xff}, []int{1, 5, 6, 40, 3000}[r.W.Pick(5)])
		case 2:
			kind = "hostile-count"
			n := []int32{-1, 1<<31 - 1, 1 << 30, 1 << 24, 70000, -(1 << 31)}[r.W.Pick(6)]
			body = append(mcpeer.AppendVarInt(nil, n), genFixed(r, r.W.Pick(12))...)
			if r.W.Pick(2) == 0 { // behind a plausible leading field
				body = append((&mcpeer.W{}).String("ab").B, body...)
			}
		case 3:
			// a small command graph (literals, redirects, cycles, dangling indices): only
			// meaningful for AvailableCommands, random bytes for everything else
			kind = "command-graph"
			w := &mcpeer.W{}
			n := 1 + r.W.Pick(4)
			w.VarInt(int32(n))
			for k := 0; k < n; k++ {
				typ := byte(1) // literal
				if k == 0 && r.W.Pick(4) != 0 {
					typ = 0 // root
				}
				flags := typ
				if r.W.Pick(2) == 0 {
					flags |= 0x04
				}
				redirect := typ == 1 && r.W.Pick(2) == 0
				if redirect {
					flags |= 0x08
				}
				w.Byte(flags)
				nc := r.W.Pick(3)
				w.VarInt(int32(nc))
				for c := 0; c < nc; c++ {
					w.VarInt(int32(r.W.Pick(n + 1))) // may dangle
				}
				if redirect {
					w.VarInt(int32(r.W.Pick(n + 1))) // may point at itself
				}
				if typ == 1 {
					w.String(fmt.Sprintf("c%d", k))
				}
			}
			w.VarInt(int32(r.W.Pick(n)))
			body = w.B
			if t, ok := reg.PacketIDs[proto.PacketID(id)]; ok && strings.Contains(fmt.Sprint(t), "AvailableCommands") {
				r.Probe("command_graph_sent_to_AvailableCommands")
			} else if dir == proto.ClientBound && st == state.Play && r.W.Pick(2) == 0 {
				for pid, t := range reg.PacketIDs {
					if strings.Contains(fmt.Sprint(t), "AvailableCommands") {
						id = int(pid)
						r.Probe("command_graph_sent_to_AvailableCommands")
					}
				}
			}
		default:
			kind = "mutated-valid"
			body = zeroEncoding(reg, proto.PacketID(id), dir, prot)
			switch r.W.Pick(4) {
			case 0:
				if len(body) > 0 {
					body = body[:r.W.Pick(len(body))]
				}
			case 1:
				if len(body) > 0 {
					body = append([]byte{}, body...)
					body[r.W.Pick(len(body))] ^= byte(1 << r.W.Pick(8))
				}
			case 2:
				body = append(append([]byte{}, body...), genFixed(r, 1+r.W.Pick(40))...)
			}
		}
		payload := append(mcpeer.AppendVarInt(nil, int32(id)), body...)
		frames = append(frames, mcpeer.Frame(payload, -1, 0))
		kinds = append(kinds, fmt.Sprintf("%s:id=%#x:%dB", kind, id, len(body)))
		total += len(payload)
		r.Op(kind)
	}
	loopDone := false
	s.GoNamed("readloop", func() {
		readLoop()
		loopDone = true
	})
	var ms runtime.MemStats
	runtime.ReadMemStats(&ms)
	before := ms.TotalAlloc
	peerDone := false
	s.GoNamed("hostile", func() {
		defer func() { peerDone = true }()
		for _, f := range frames {
			if _, err := peer.Write(f); err != nil {
				return
			}
			simrt.Yield("c05.peer")
		}
		_ = peer.CloseWrite()
	})
	why := s.RunUntil(20*time.Second, func() bool { return peerDone && loopDone })
	runtime.ReadMemStats(&ms)
	alloc := ms.TotalAlloc - before
	desc := fmt.Sprintf("direction=%v state=%s protocol=%d frames=%v", dir, st, prot, kinds)
	if why == "steps" {
		r.Inconclusive("step budget exhausted")
		return
	}
	if len(panics) > 0 {
		r.Fail("decode-panic", panicSite(panics[0]), "the read loop recovered a panic while handling hostile input: %s; %s", panics[0], desc)
		return
	}
	if !loopDone {
		_ = peer.Close()
		s.RunUntil(40*time.Second, func() bool { return loopDone })
		if !loopDone {
			r.Fail("read-loop-hang", "hang", "the peer sent %d frames and closed, the read loop neither finished nor closed the connection: %s; parked %+v", nFrames, desc, s.Parked())
			return
		}
	}
	// the harness's own copies (frames, segmentation buffers) are a small multiple of the bytes sent
	if limit := uint64(64*total + 24<<20); alloc > limit {
		r.Fail("allocation-out-of-proportion", "alloc", "%d bytes were sent, %d bytes were allocated while they were processed (limit %d): %s", total, alloc, limit, desc)
		return
	}
	r.State(fmt.Sprintf("%v %s p%d n%d h%d", dir, st, prot, nFrames, h.handled))
	r.Res.Sample = map[string]any{"direction": fmt.Sprint(dir), "state": st.String(), "protocol": int(prot), "frames": nFrames, "handled": h.handled, "bytes_sent": total, "allocated": alloc}
}

// zeroEncoding encodes the zero value of the packet registered under id (nil if it cannot
// be encoded).
func zeroEncoding(reg *state.ProtocolRegistry, id proto.PacketID, dir proto.Direction, prot proto.Protocol) (out []byte) {
	t, ok := reg.PacketIDs[id]
	if !ok {
		return nil
	}
	defer func() {
		if recover() != nil {
			out = nil
		}
	}()
	rt := reflect.Type(t)
	for rt.Kind() == reflect.Ptr {
		rt = rt.Elem()
	}
	p, ok := reflect.New(rt).Interface().(proto.Packet)
	if !ok {
		return nil
	}
	var buf bytes.Buffer
	if err := p.Encode(&proto.PacketContext{Direction: dir, Protocol: prot, PacketID: id}, &buf); err != nil {
		return nil
	}
	return buf.Bytes()
}

func panicSite(s string) string {
	if i := strings.Index(s, `"panic"=`); i >= 0 {
		s = s[i+8:]
	}
	if len(s) > 60 {
		s = s[:60]
	}
	return s
}

// c05handler only counts (recHandler of C44 panics on marked packets by design).
type c05handler struct{ handled int }

func (h *c05handler) HandlePacket(*proto.PacketContext) { h.handled++ }
func (h *c05handler) Disconnected()                     {}
func (h *c05handler) Activated()                        {}
func (h *c05handler) Deactivated()                      {}
