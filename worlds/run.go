// Package worlds contains the simulated worlds (harnesses), their actors/reference models
// and the per-property scenarios. Everything here runs inside a testing/synctest bubble
// under simrt; TestSim (sim_test.go) is the entry point used by vcheck.
package worlds

import (
	"os"
	"fmt"
	"sort"
	"strings"
	"time"

	"go.minekube.com/gate/pkg/zzverif/simnet"
	"go.minekube.com/gate/pkg/zzverif/simrt"
)

// Tapes of one run. Kept separate so that shrinking one does not shift the others.
type Tapes struct {
	W []uint32 `json:"w"` // workload
	S []uint32 `json:"s"` // schedule
	F []uint32 `json:"f"` // faults
	A []uint32 `json:"a"` // aux (map order)
}

type Violation struct {
	Class  string `json:"class"`  // oracle id, stable
	Detail string `json:"detail"` // human readable
	Sig    string `json:"sig"`    // signature for known-findings matching (no line numbers)
}

// Result is what one run reports to vcheck.
type Result struct {
	Prop       string         `json:"prop"`
	Index      int            `json:"index"`
	Seed       uint64         `json:"seed"`
	Hash       string         `json:"hash"`
	Steps      int            `json:"steps"`
	Picks      int            `json:"picks"`
	NonDflt    int            `json:"nondflt"`
	MaxCands   int            `json:"maxcands"`
	Adopted    int            `json:"adopted"`
	SimMs      int64          `json:"sim_ms"`
	Ops        int            `json:"ops"`
	OpKinds    string         `json:"opkinds"`
	Faults     map[string]int `json:"faults,omitempty"`
	Probes     map[string]int `json:"probes,omitempty"`
	Variant    string         `json:"variant,omitempty"`
	Viol       *Violation     `json:"viol,omitempty"`
	Harness    string         `json:"harness_error,omitempty"`
	Leaked     int            `json:"leaked,omitempty"`
	Tapes      *Tapes         `json:"tapes,omitempty"`
	Trace      []string       `json:"trace,omitempty"`
	Sample     any            `json:"sample,omitempty"`
	Strategy   int            `json:"strategy"`
	States     []string       `json:"states,omitempty"`
	NonTrivial bool           `json:"nontrivial"`
	Used       []int          `json:"used,omitempty"`
	Inconcl    string         `json:"inconclusive,omitempty"`
	Race       string         `json:"race_report,omitempty"` // race-detector output produced during this run (race builds)
}

// Run is the context handed to a scenario.
type Run struct {
	Prop   string
	Seed   uint64
	Tier   string
	W, F   *simrt.Tape
	S, A   *simrt.Tape
	Sim    *simrt.Sim
	Net    simnet.Stats
	Res    *Result
	ops    []string
	start  time.Time
	Replay bool
	log    []string
	conns  []*simnet.Conn
	states map[string]struct{}
}

func (r *Run) Fail(class, sig, format string, args ...any) {
	if r.Res.Viol != nil {
		return
	}
	r.Res.Viol = &Violation{Class: class, Sig: sig, Detail: fmt.Sprintf(format, args...)}
}

func (r *Run) Failed() bool { return r.Res.Viol != nil }

// HarnessError marks the run as broken on the harness side (never a violation).
func (r *Run) HarnessError(format string, args ...any) {
	if r.Res.Harness == "" {
		r.Res.Harness = fmt.Sprintf(format, args...)
	}
}

// Inconclusive marks a run whose budget ran out before the oracle could be evaluated. It
// is neither a violation nor a harness error; evidence counts them.
func (r *Run) Inconclusive(why string) {
	if r.Res.Inconcl == "" {
		r.Res.Inconcl = why
	}
}

// Op records a workload operation kind (for distinctness and samples).
func (r *Run) Op(kind string) {
	r.Res.Ops++
	if len(r.ops) < 64 {
		r.ops = append(r.ops, kind)
	}
}

// Fault counts a fault that actually fired.
func (r *Run) Fault(kind string) {
	if r.Res.Faults == nil {
		r.Res.Faults = map[string]int{}
	}
	r.Res.Faults[kind]++
}

// Probe counts that a rare condition was reached.
func (r *Run) Probe(name string) {
	if r.Res.Probes == nil {
		r.Res.Probes = map[string]int{}
	}
	r.Res.Probes[name]++
}

// State records an abstract world state (distinct-state measure).
func (r *Run) State(s string) {
	if r.states == nil {
		r.states = map[string]struct{}{}
	}
	if len(r.states) < 4096 {
		r.states[s] = struct{}{}
	}
}

func (r *Run) Logf(format string, args ...any) {
	if r.Replay || len(r.log) < 200 {
		r.log = append(r.log, fmt.Sprintf("[%d] ", r.stepNo())+fmt.Sprintf(format, args...))
	}
}

func (r *Run) stepNo() int {
	if r.Sim == nil {
		return 0
	}
	return r.Sim.Steps
}

// NewSim creates the scheduler with a tape-chosen strategy. Must run inside the bubble.
func (r *Run) NewSim(maxSteps int) *simrt.Sim {
	strat := simrt.Strategy(r.W.Pick(int(simrt.NumStrategies)))
	r.Res.Strategy = int(strat)
	r.Sim = simrt.New(simrt.Config{Sched: r.S, Aux: r.A, Strategy: strat, MaxSteps: maxSteps, Trace: r.Replay})
	r.start = time.Now()
	if yieldUnlockEnv {
		r.Sim.YieldAfterUnlock = true
	}
	return r.Sim
}

// yieldUnlockEnv (VSIM_YIELD_UNLOCK=1) is an exploration knob: it makes every mutex release a
// scheduling point in every scenario. No registered command sets it; a replay file recorded
// with it replays only with it.
var yieldUnlockEnv = os.Getenv("VSIM_YIELD_UNLOCK") == "1"

// Pipe creates a simnet link with tape-chosen segmentation/window and registers it for teardown.
func (r *Run) Pipe(nameA, nameB string, o simnet.Options) (*simnet.Conn, *simnet.Conn) {
	o.NameA, o.NameB = nameA, nameB
	o.Tape = r.F
	o.Stats = &r.Net
	a, b := simnet.Pipe(o)
	r.conns = append(r.conns, a, b)
	return a, b
}

// SegChoice draws a segmentation mode: 0 => whole.
func (r *Run) SegChoice() simnet.SegMode {
	switch r.F.Pick(4) {
	case 0, 1:
		return simnet.SegWhole
	case 2:
		return simnet.SegRandom
	default:
		return simnet.SegByte
	}
}

// Finish tears the simulation down: free-run, close links, give the bubble time to drain.
func (r *Run) Finish() {
	s := r.Sim
	if s == nil {
		return
	}
	res := r.Res
	res.Hash = fmt.Sprintf("%016x", s.Hash())
	res.Steps = s.Steps
	res.Picks = s.Picks
	res.NonDflt = s.NonDflt
	res.MaxCands = s.MaxCands
	res.Adopted = s.Adopted
	res.SimMs = time.Since(r.start).Milliseconds()
	res.OpKinds = strings.Join(r.ops, ",")
	if r.Net.ShortReads > 0 {
		r.Fault("segmentation")
		res.Faults["segmentation"] += r.Net.ShortReads - 1
	}
	if r.Net.BackPressureBlocks > 0 {
		r.Fault("backpressure")
		res.Faults["backpressure"] += r.Net.BackPressureBlocks - 1
	}
	for k, v := range map[string]int{"reset": r.Net.Resets, "peer_crash_rst": r.Net.CutRST, "peer_crash_eof": r.Net.CutEOF,
		"write_failure": r.Net.WriteFailures, "stall": r.Net.Stalls, "read_timeout": r.Net.ReadTimeouts, "write_timeout": r.Net.WriteTimeouts} {
		if v > 0 {
			r.Fault(k)
			res.Faults[k] += v - 1
		}
	}
	if r.Replay || res.Viol != nil {
		nTail := 120
		if r.Replay {
			nTail = 5000
		}
		for _, e := range s.Tail(nTail) {
			res.Trace = append(res.Trace, fmt.Sprintf("%d %s @%s", e.Step, e.G, e.Site))
		}
		res.Trace = append(res.Trace, r.log...)
	}
	for st := range r.states {
		res.States = append(res.States, st)
	}
	sort.Strings(res.States)
	nf := 0
	for _, v := range res.Faults {
		nf += v
	}
	res.NonTrivial = res.Ops > 0 && (res.NonDflt > 0 || nf > 0)
	res.Used = []int{r.W.Pos(), r.S.Pos(), r.F.Pos(), r.A.Pos()}
	s.Close()
	for _, c := range r.conns {
		_ = c.Close()
	}
	time.Sleep(10 * time.Minute)
}

// Scenario is one property's simulated check.
type Scenario struct {
	Prop      string       `json:"prop"`
	Desc      string       `json:"desc"`
	Quick     int          `json:"quick"`                // runs in the quick tier
	Thorough  int          `json:"thorough"`             // runs in the thorough tier
	Race      bool         `json:"race"`                 // needs the -race build
	RaceScope []string     `json:"race_scope,omitempty"` // detector reports count only if a frame contains one of these
	Crash     bool         `json:"crash_is_violation"`
	Real      string       `json:"real"`  // components running real code
	Model     string       `json:"model"` // components that are models / stubs
	Rule      string       `json:"rule"`
	Assume    []string     `json:"assume"`
	Run       func(r *Run) `json:"-"`
}

var scenarios = map[string]*Scenario{}

func Register(s *Scenario) {
	if scenarios[s.Prop] != nil {
		panic("duplicate scenario " + s.Prop)
	}
	scenarios[s.Prop] = s
}

func Lookup(prop string) *Scenario { return scenarios[prop] }

func All() []*Scenario {
	var out []*Scenario
	for _, p := range Props() {
		out = append(out, scenarios[p])
	}
	return out
}

func Props() []string {
	var out []string
	for k := range scenarios {
		out = append(out, k)
	}
	sort.Strings(out)
	return out
}

// CheckDeadlock reports goroutines that are still waiting for an emulated lock / Once
// after the cool-down (faults stopped, peers cooperative, clock advanced): with nothing
// else runnable that is a deadlock (or a leaked lock). Returns true if it failed the run.
func (r *Run) CheckDeadlock() bool {
	if len(r.Sim.LockWaiters()) > 0 {
		// not quiescent yet: let everything settle first (a waiter is only a deadlock if
		// nothing else can run any more)
		if r.Sim.RunUntil(5*time.Second, nil) == "steps" {
			return false
		}
	}
	ws := r.Sim.LockWaiters()
	if len(ws) == 0 {
		return false
	}
	var sites []string
	seen := map[string]bool{}
	for _, w := range ws {
		if !seen[w.Site] {
			seen[w.Site] = true
			sites = append(sites, w.Site)
		}
	}
	sort.Strings(sites)
	r.Fail("deadlock", strings.Join(sites, "+"), "after cool-down %d goroutine(s) still wait for a lock that is never released: %+v", len(ws), ws)
	return true
}
