// Command instr rewrites the synchronisation points of selected Gate packages into simrt
// calls and emits an overlay.json for `go build -overlay`. Nothing is written to /repo.
//
// Type-directed (go/packages + go/types): only real sync types are touched. A construct it
// does not understand aborts with exit status 2 (fail closed).
package main

import (
	"bytes"
	"crypto/sha256"
	"encoding/hex"
	"encoding/json"
	"flag"
	"fmt"
	"go/ast"
	"go/printer"
	"go/token"
	"go/types"
	"os"
	"path/filepath"
	"sort"
	"strconv"
	"strings"

	"golang.org/x/tools/go/ast/astutil"
	"golang.org/x/tools/go/packages"
)

const simrtPath = "go.minekube.com/gate/pkg/zzverif/simrt"

type stats struct {
	Lock, Unlock, Locker, Once, Cond, Go, Recv, Send, Select, WG, Sleep, MapRange, MapNative, Entry, Dial, Atomic, AfterFunc int
}

var st stats
var native []string

// packages whose function entries are NOT yield points (hot pure helpers)
var noEntry = map[string]bool{}

func main() {
	out := flag.String("out", "", "output dir")
	dir := flag.String("dir", "/repo", "module dir")
	inject := flag.String("inject", "", "dir with files to inject: <inject>/<pkg rel path>/*.go")
	flag.Parse()
	if *out == "" {
		fmt.Fprintln(os.Stderr, "need -out")
		os.Exit(2)
	}
	cfg := &packages.Config{
		Mode:       packages.NeedName | packages.NeedFiles | packages.NeedCompiledGoFiles | packages.NeedSyntax | packages.NeedTypes | packages.NeedTypesInfo | packages.NeedImports,
		Dir:        *dir,
		BuildFlags: []string{"-mod=mod"},
	}
	pkgs, err := packages.Load(cfg, flag.Args()...)
	if err != nil {
		fmt.Fprintln(os.Stderr, "instr: load:", err)
		os.Exit(2)
	}
	overlay := map[string]string{}
	for _, p := range pkgs {
		if len(p.Errors) > 0 {
			fmt.Fprintln(os.Stderr, "instr: load errors in", p.PkgPath, p.Errors)
			os.Exit(2)
		}
		for i, f := range p.Syntax {
			name := p.CompiledGoFiles[i]
			if strings.HasSuffix(name, "_test.go") || !strings.HasPrefix(name, *dir) {
				continue
			}
			rel, _ := filepath.Rel(*dir, name)
			changed := rewriteFile(p, f, rel)
			if !changed {
				continue
			}
			var header []string
			for _, cg := range f.Comments {
				for _, c := range cg.List {
					if c.Pos() < f.Package && (strings.HasPrefix(c.Text, "//go:build") || strings.HasPrefix(c.Text, "// +build")) {
						header = append(header, c.Text)
					}
				}
			}
			f.Comments = nil
			stripDocs(f)
			var buf bytes.Buffer
			pc := printer.Config{Mode: printer.UseSpaces | printer.TabIndent | printer.SourcePos, Tabwidth: 8}
			if err := pc.Fprint(&buf, p.Fset, f); err != nil {
				fmt.Fprintln(os.Stderr, "instr: print", name, err)
				os.Exit(2)
			}
			dst := filepath.Join(*out, rel)
			_ = os.MkdirAll(filepath.Dir(dst), 0o755)
			src := buf.String()
			if len(header) > 0 {
				src = strings.Join(header, "\n") + "\n\n" + src
			}
			if err := os.WriteFile(dst, []byte(src), 0o644); err != nil {
				fmt.Fprintln(os.Stderr, "instr:", err)
				os.Exit(2)
			}
			overlay[name] = dst
		}
	}
	if *inject != "" {
		_ = filepath.Walk(*inject, func(path string, info os.FileInfo, err error) error {
			if err != nil || info.IsDir() || !strings.HasSuffix(path, ".go") {
				return nil
			}
			rel, _ := filepath.Rel(*inject, path)
			overlay[filepath.Join(*dir, filepath.Dir(rel), "zz_verif_"+filepath.Base(rel))] = path
			return nil
		})
	}
	b, _ := json.MarshalIndent(map[string]any{"Replace": overlay}, "", " ")
	if err := os.WriteFile(filepath.Join(*out, "overlay.json"), b, 0o644); err != nil {
		fmt.Fprintln(os.Stderr, "instr:", err)
		os.Exit(2)
	}
	sort.Strings(native)
	sb, _ := json.MarshalIndent(map[string]any{"files": len(overlay), "stats": st, "map_ranges_left_native": native}, "", " ")
	_ = os.WriteFile(filepath.Join(*out, "instr-stats.json"), sb, 0o644)
	h := sha256.Sum256(b)
	fmt.Printf("instr: files=%d overlay=%s stats=%+v\n", len(overlay), hex.EncodeToString(h[:6]), st)
}

func stripDocs(f *ast.File) {
	ast.Inspect(f, func(n ast.Node) bool {
		switch x := n.(type) {
		case *ast.FuncDecl:
			x.Doc = keepDirectives(x.Doc)
		case *ast.GenDecl:
			x.Doc = keepDirectives(x.Doc)
		case *ast.Field:
			x.Doc, x.Comment = nil, nil
		case *ast.TypeSpec:
			x.Doc, x.Comment = nil, nil
		case *ast.ValueSpec:
			x.Doc, x.Comment = nil, nil
		case *ast.ImportSpec:
			x.Doc, x.Comment = nil, nil
		}
		return true
	})
	f.Doc = nil
}

func keepDirectives(cg *ast.CommentGroup) *ast.CommentGroup {
	if cg == nil {
		return nil
	}
	var keep []*ast.Comment
	for _, c := range cg.List {
		if strings.HasPrefix(c.Text, "//go:") {
			keep = append(keep, c)
		}
	}
	if len(keep) == 0 {
		return nil
	}
	return &ast.CommentGroup{List: keep}
}

func sel(x string, name string) *ast.SelectorExpr {
	return &ast.SelectorExpr{X: ast.NewIdent(x), Sel: ast.NewIdent(name)}
}
func call(fn string, args ...ast.Expr) *ast.CallExpr {
	return &ast.CallExpr{Fun: sel("simrt", fn), Args: args}
}
func callStmt(fn string, args ...ast.Expr) ast.Stmt { return &ast.ExprStmt{X: call(fn, args...)} }
func strLit(s string) ast.Expr                      { return &ast.BasicLit{Kind: token.STRING, Value: strconv.Quote(s)} }

// methodOf returns (pkgpath, recvTypeName, methodName) for a method call selector.
func methodOf(info *types.Info, s *ast.SelectorExpr) (string, string, string, bool) {
	sl := info.Selections[s]
	if sl == nil || sl.Kind() != types.MethodVal {
		return "", "", "", false
	}
	fn, ok := sl.Obj().(*types.Func)
	if !ok {
		return "", "", "", false
	}
	sig := fn.Type().(*types.Signature)
	if sig.Recv() == nil {
		return "", "", "", false
	}
	t := sig.Recv().Type()
	if p, ok := t.(*types.Pointer); ok {
		t = p.Elem()
	}
	n, ok := t.(*types.Named)
	if !ok || n.Obj().Pkg() == nil {
		return "", "", "", false
	}
	return n.Obj().Pkg().Path(), n.Obj().Name(), fn.Name(), true
}

func keyOrderable(t types.Type) bool {
	switch u := t.Underlying().(type) {
	case *types.Basic:
		return true
	case *types.Array:
		return keyOrderable(u.Elem())
	case *types.Struct:
		for i := 0; i < u.NumFields(); i++ {
			if !keyOrderable(u.Field(i).Type()) {
				return false
			}
		}
		return true
	}
	return false // pointers, interfaces, chans, type params: no canonical order
}

func hasCall(n ast.Node) bool {
	found := false
	ast.Inspect(n, func(m ast.Node) bool {
		if _, ok := m.(*ast.CallExpr); ok {
			found = true
		}
		return !found
	})
	return found
}

func trivialBody(b *ast.BlockStmt) bool {
	if len(b.List) == 0 {
		return true
	}
	if len(b.List) == 1 {
		if r, ok := b.List[0].(*ast.ReturnStmt); ok && !hasCall(r) {
			return true
		}
	}
	return false
}

func rewriteFile(p *packages.Package, f *ast.File, rel string) bool {
	info := p.TypesInfo
	changed := false
	inSelectComm := map[ast.Node]bool{}
	labeled := map[ast.Stmt]bool{}
	ast.Inspect(f, func(n ast.Node) bool {
		switch x := n.(type) {
		case *ast.CommClause:
			if x.Comm != nil {
				ast.Inspect(x.Comm, func(m ast.Node) bool {
					if m != nil {
						inSelectComm[m] = true
					}
					return true
				})
			}
		case *ast.LabeledStmt:
			labeled[x.Stmt] = true
		}
		return true
	})
	tmp := 0
	fresh := func(base string) *ast.Ident { tmp++; return ast.NewIdent(fmt.Sprintf("%s__%d", base, tmp)) }
	base := filepath.Base(rel)
	site := func(n ast.Node) ast.Expr {
		pos := p.Fset.Position(n.Pos())
		return strLit(base + ":" + strconv.Itoa(pos.Line))
	}
	fnSite := func(fd *ast.FuncDecl) ast.Expr {
		name := fd.Name.Name
		if fd.Recv != nil && len(fd.Recv.List) > 0 {
			t := fd.Recv.List[0].Type
			if s, ok := t.(*ast.StarExpr); ok {
				t = s.X
			}
			if ix, ok := t.(*ast.IndexExpr); ok {
				t = ix.X
			}
			if id, ok := t.(*ast.Ident); ok {
				name = id.Name + "." + name
			}
		}
		return strLit(base + ":" + name)
	}

	astutil.Apply(f, func(c *astutil.Cursor) bool {
		switch x := c.Node().(type) {
		case *ast.FuncDecl:
			if x.Body != nil && !noEntry[p.PkgPath] && x.Name.Name != "init" && x.Name.Name != "String" && x.Name.Name != "Error" && !trivialBody(x.Body) {
				x.Body.List = append([]ast.Stmt{callStmt("Yield", fnSite(x))}, x.Body.List...)
				st.Entry++
				changed = true
			}
		case *ast.CommClause:
			if x.Comm != nil {
				x.Body = append([]ast.Stmt{callStmt("Resumed", site(x))}, x.Body...)
				st.Select++
				changed = true
			}
		}
		return true
	}, func(c *astutil.Cursor) bool {
		switch x := c.Node().(type) {
		case *ast.CallExpr:
			s, ok := x.Fun.(*ast.SelectorExpr)
			if !ok {
				return true
			}
			if id, ok := s.X.(*ast.Ident); ok {
				if pn, ok := info.Uses[id].(*types.PkgName); ok && pn.Imported().Path() == "time" {
					switch s.Sel.Name {
					case "Sleep":
						c.Replace(call("Sleep", append(x.Args, site(x))...))
						st.Sleep++
						changed = true
						return true
					case "AfterFunc":
						// first statement of the callback is a yield, so that the timer
						// goroutine is adopted and parked before touching state
						if fl, ok := x.Args[1].(*ast.FuncLit); ok {
							fl.Body.List = append([]ast.Stmt{callStmt("Yield", site(x))}, fl.Body.List...)
							st.AfterFunc++
							changed = true
						}
						return true
					}
				}
			}
			pkg, recv, name, ok := methodOf(info, s)
			if !ok {
				return true
			}
			mv := func(m string) ast.Expr { return &ast.SelectorExpr{X: s.X, Sel: ast.NewIdent(m)} }
			switch {
			case pkg == "sync" && (recv == "Mutex" || recv == "RWMutex") && len(x.Args) == 0:
				switch name {
				case "Lock":
					c.Replace(call("Lock", mv("TryLock"), mv("Lock"), site(x)))
					st.Lock++
				case "RLock":
					c.Replace(call("Lock", mv("TryRLock"), mv("RLock"), site(x)))
					st.Lock++
				case "Unlock":
					c.Replace(call("Unlock", mv("Unlock"), site(x)))
					st.Unlock++
				case "RUnlock":
					c.Replace(call("Unlock", mv("RUnlock"), site(x)))
					st.Unlock++
				default:
					return true
				}
				changed = true
			case pkg == "sync" && recv == "Locker":
				switch name {
				case "Lock":
					c.Replace(call("LockLocker", s.X, site(x)))
				case "Unlock":
					c.Replace(call("UnlockLocker", s.X, site(x)))
				default:
					return true
				}
				st.Locker++
				changed = true
			case pkg == "sync" && recv == "Once" && name == "Do":
				var ptr ast.Expr = s.X
				if _, isPtr := info.TypeOf(s.X).(*types.Pointer); !isPtr {
					ptr = &ast.UnaryExpr{Op: token.AND, X: s.X}
				}
				c.Replace(call("OnceDo", ptr, x.Args[0], site(x)))
				st.Once++
				changed = true
			case pkg == "sync" && recv == "Cond":
				switch name {
				case "Wait":
					c.Replace(call("CondWait", s.X, site(x)))
				case "Signal":
					c.Replace(call("CondSignal", s.X, site(x)))
				case "Broadcast":
					c.Replace(call("CondBroadcast", s.X, site(x)))
				default:
					return true
				}
				st.Cond++
				changed = true
			case pkg == "sync" && recv == "WaitGroup" && name == "Wait":
				c.Replace(call("WGWait", mv("Wait"), site(x)))
				st.WG++
				changed = true
			case pkg == "net" && recv == "Dialer" && name == "DialContext":
				c.Replace(call("DialContext", append([]ast.Expr{mv("DialContext")}, x.Args...)...))
				st.Dial++
				changed = true
			}
		case *ast.UnaryExpr:
			if x.Op == token.ARROW && !inSelectComm[x] {
				if as, ok := c.Parent().(*ast.AssignStmt); ok && len(as.Lhs) == 2 && len(as.Rhs) == 1 {
					c.Replace(call("Recv2", x.X, site(x)))
				} else if vs, ok := c.Parent().(*ast.ValueSpec); ok && len(vs.Names) == 2 && len(vs.Values) == 1 {
					c.Replace(call("Recv2", x.X, site(x)))
				} else {
					c.Replace(call("Recv", x.X, site(x)))
				}
				st.Recv++
				changed = true
			}
		case *ast.SendStmt:
			if !inSelectComm[x] {
				c.Replace(callStmt("Send", x.Chan, x.Value, site(x)))
				st.Send++
				changed = true
			}
		case *ast.GoStmt:
			tok := fresh("tok")
			pre := []ast.Stmt{&ast.AssignStmt{Lhs: []ast.Expr{tok}, Tok: token.DEFINE, Rhs: []ast.Expr{call("Spawn")}}}
			prologue := []ast.Stmt{
				callStmt("Start", tok),
				&ast.DeferStmt{Call: call("Exit")},
			}
			if fl, ok := x.Call.Fun.(*ast.FuncLit); ok {
				fl.Body.List = append(prologue, fl.Body.List...)
				c.Replace(&ast.BlockStmt{List: append(pre, x)})
			} else {
				fn := fresh("fn")
				lhs := []ast.Expr{fn}
				rhs := []ast.Expr{x.Call.Fun}
				var args []ast.Expr
				for _, a := range x.Call.Args {
					v := fresh("a")
					lhs = append(lhs, v)
					rhs = append(rhs, a)
					args = append(args, v)
				}
				pre = append(pre, &ast.AssignStmt{Lhs: lhs, Tok: token.DEFINE, Rhs: rhs})
				inner := &ast.CallExpr{Fun: fn, Args: args}
				if x.Call.Ellipsis.IsValid() {
					inner.Ellipsis = 1
				}
				body := append(prologue, &ast.ExprStmt{X: inner})
				x.Call = &ast.CallExpr{Fun: &ast.FuncLit{Type: &ast.FuncType{Params: &ast.FieldList{}}, Body: &ast.BlockStmt{List: body}}}
				c.Replace(&ast.BlockStmt{List: append(pre, x)})
			}
			st.Go++
			changed = true
		case *ast.RangeStmt:
			t := info.TypeOf(x.X)
			if t == nil {
				return true
			}
			if _, isChan := t.Underlying().(*types.Chan); isChan {
				x.Body.List = append([]ast.Stmt{callStmt("Resumed", site(x))}, x.Body.List...)
				changed = true
				return true
			}
			mt, isMap := t.Underlying().(*types.Map)
			if !isMap {
				return true
			}
			if labeled[x] || !keyOrderable(mt.Key()) {
				st.MapNative++
				native = append(native, fmt.Sprintf("%s:%d key=%s labeled=%v", rel, p.Fset.Position(x.Pos()).Line, mt.Key(), labeled[x]))
				// still make each iteration a scheduling point
				x.Body.List = append([]ast.Stmt{callStmt("Yield", site(x))}, x.Body.List...)
				changed = true
				return true
			}
			m := fresh("m")
			k := fresh("k")
			v := fresh("v")
			okv := fresh("ok")
			var body []ast.Stmt
			needV := x.Value != nil && !isBlank(x.Value)
			needK := x.Key != nil && !isBlank(x.Key)
			vLhs := ast.Expr(ast.NewIdent("_"))
			if needV {
				vLhs = v
			}
			body = append(body,
				callStmt("Yield", site(x)),
				&ast.AssignStmt{Lhs: []ast.Expr{vLhs, okv}, Tok: token.DEFINE, Rhs: []ast.Expr{&ast.IndexExpr{X: m, Index: k}}},
				&ast.IfStmt{Cond: &ast.UnaryExpr{Op: token.NOT, X: okv}, Body: &ast.BlockStmt{List: []ast.Stmt{&ast.BranchStmt{Tok: token.CONTINUE}}}},
			)
			var lhs, rhs []ast.Expr
			if needK {
				lhs, rhs = append(lhs, x.Key), append(rhs, k)
			}
			if needV {
				lhs, rhs = append(lhs, x.Value), append(rhs, v)
			}
			if len(lhs) > 0 {
				body = append(body, &ast.AssignStmt{Lhs: lhs, Tok: x.Tok, Rhs: rhs})
				if x.Tok == token.DEFINE {
					for _, l := range lhs {
						body = append(body, &ast.AssignStmt{Lhs: []ast.Expr{ast.NewIdent("_")}, Tok: token.ASSIGN, Rhs: []ast.Expr{l}})
					}
				}
			}
			body = append(body, x.Body.List...)
			loop := &ast.RangeStmt{Key: ast.NewIdent("_"), Value: k, Tok: token.DEFINE, X: call("MapKeys", m), Body: &ast.BlockStmt{List: body}}
			c.Replace(&ast.BlockStmt{List: []ast.Stmt{
				&ast.AssignStmt{Lhs: []ast.Expr{m}, Tok: token.DEFINE, Rhs: []ast.Expr{x.X}},
				loop,
			}})
			st.MapRange++
			changed = true
		}
		return true
	})
	if changed {
		astutil.AddNamedImport(p.Fset, f, "simrt", simrtPath)
	}
	return changed
}

func isBlank(e ast.Expr) bool {
	id, ok := e.(*ast.Ident)
	return ok && id.Name == "_"
}
