//go:build race

package simrt

import "runtime"

const RaceBuild = true

//go:norace
func raceDisable() { runtime.RaceDisable() }

//go:norace
func raceEnable() { runtime.RaceEnable() }
