package worlds

import (
	"bytes"
	"encoding/binary"
	"fmt"
	"go.minekube.com/gate/pkg/edition/java/proxy/message"
	"time"

	"go.minekube.com/gate/pkg/edition/java/config"
	"go.minekube.com/gate/pkg/edition/java/proto/state"
	"go.minekube.com/gate/pkg/gate/proto"
	"go.minekube.com/gate/pkg/zzverif/simrt"
)

// C15 — non-intercepted packets are relayed byte-identical and in order.
//
// One player in play on a backend (real proxy, tape-chosen protocol family, independent
// compression thresholds on the two links). Client and backend each stream tagged
// payloads whose packet ids are unknown to Gate's registry for (play, protocol,
// direction). Faults: segmentation, back-pressure windows; destructive variant: one side
// is reset mid-stream. Oracle: payload sequences equal per direction; under a reset the
// received sequence is a prefix of the sent one.
func init() {
	Register(&Scenario{Prop: "C15", Desc: "pass-through relay byte-identical and ordered", Run: runC15,
		Quick: 300, Thorough: 30000,
		Real:  "proxy.Proxy full session (login, config, play handlers, forwardToServer/forwardToPlayer), netmc, codec re-framing on both links",
		Model: "client and backend actors; packet ids chosen as unknown to Gate's registry"})
}

func unknownIDs(dir proto.Direction, prot proto.Protocol) []int {
	reg := state.FromDirection(dir, state.Play, prot)
	var ids []int
	for id := 0x30; id < 0x7f; id++ {
		if reg.CreatePacket(proto.PacketID(id)) == nil {
			ids = append(ids, id)
		}
	}
	return ids
}

var relayMagic = []byte("VRFY")

func relayPayload(r *Run, id int, n int, tag uint32) []byte {
	if n < 10 {
		n = 10
	}
	p := make([]byte, n)
	p[0] = byte(id)
	copy(p[1:], relayMagic)
	binary.BigEndian.PutUint32(p[5:], tag)
	mode := r.W.Pick(2)
	x := uint32(tag*2654435761 + 1)
	for i := 9; i < n; i++ {
		if mode == 0 {
			p[i] = byte(tag)
		} else {
			x = x*1664525 + 1013904223
			p[i] = byte(x >> 16)
		}
	}
	return p
}

func isRelay(p []byte) bool { return len(p) >= 9 && bytes.Equal(p[1:5], relayMagic) }

func runC15(r *Run) {
	prot := pickProtocol(r)
	backendThr := []int{-1, 0, 64, 256, 1024}[r.W.Pick(5)]
	w := newClassic(r, []string{"lobby"}, func(cfg *config.Config) {})
	proxyEvents(w)
	w.backends["lobby"].Beh.Compression = backendThr
	c2sIDs, s2cIDs := unknownIDs(proto.ServerBound, prot), unknownIDs(proto.ClientBound, prot)
	if len(c2sIDs) == 0 || len(s2cIDs) == 0 {
		r.HarnessError("no unknown ids for protocol %d", prot)
		return
	}
	size := func(big bool) int {
		switch r.W.Pick(6) {
		case 0:
			return 10
		case 1:
			return 250 + r.W.Pick(20)
		case 2:
			if big {
				return []int{32768, 1<<20 + 7, 1<<21 - 1024}[r.W.Pick(3)]
			}
			return 1000 + r.W.Pick(3000)
		default:
			return 10 + r.W.Pick(500)
		}
	}
	big := r.W.Pick(8) == 0
	nC, nS := 1+r.W.Pick(40), 1+r.W.Pick(40)
	var c2s, s2c [][]byte
	for i := 0; i < nC; i++ {
		c2s = append(c2s, relayPayload(r, c2sIDs[r.W.Pick(len(c2sIDs))], size(big && i == 0), uint32(i+1)))
	}
	for i := 0; i < nS; i++ {
		s2c = append(s2c, relayPayload(r, s2cIDs[r.W.Pick(len(s2cIDs))], size(big && i == 0), uint32(i+1)))
	}
	fault := r.F.Pick(5) // 0,1,2 none; 3 client reset mid-stream; 4 backend reset mid-stream
	cutAfter := r.F.Pick(max(nC, nS))

	var gotAtBackend, gotAtClient [][]byte
	backendDoneSending := false
	w.backends["lobby"].Beh.OnJoined = func(bc *backendConn) {
		for i, p := range s2c {
			if fault == 4 && i == cutAfter {
				r.Fault("backend_reset_midstream")
				bc.conn.Reset()
				break
			}
			r.Op("s2c")
			if err := bc.sendRaw(p); err != nil {
				break
			}
			simrt.Yield("c15.backend")
		}
		backendDoneSending = true
	}
	// a slow client: few bytes in flight, so that the proxy's flushes block
	w.clientWindow = []int{0, 0, 96, 700}[r.F.Pick(4)]
	// a second writer on the player connection while the relay runs (plugin API)
	nAPI := r.W.Pick(12)
	apiDone := nAPI == 0
	apiCh, _ := message.ChannelIdentifierFrom("verif:api")
	var joined bool
	clientDoneSending := false
	cl := w.addClient("Relay", prot, func(c *clientModel) {
		c.OnPacket = func(rec *pktRec) {
			if rec.Packet == nil && isRelay(rec.Payload) {
				gotAtClient = append(gotAtClient, rec.Payload)
			}
		}
		if !c.Login() {
			return
		}
		joined = true
		bc := w.backends["lobby"].Conns[0]
		bc.OnPacket = func(rec *pktRec) {
			if rec.Packet == nil && isRelay(rec.Payload) {
				gotAtBackend = append(gotAtBackend, rec.Payload)
			}
		}
		c.StartReader()
		if !c.WaitConnected(1) {
			return
		}
		if pl := w.p.PlayerByName("Relay"); pl != nil && nAPI > 0 {
			simrt.Go(func() {
				defer func() { apiDone = true }()
				for i := 0; i < nAPI; i++ {
					r.Op("api-write")
					if pl.SendPluginMessage(apiCh, []byte{byte(i), 1, 2, 3}) != nil {
						return
					}
					for k, m := 0, r.W.Pick(4); k < m; k++ {
						simrt.Yield("c15.api")
					}
				}
			})
		} else {
			apiDone = true
		}
		for i, p := range c2s {
			if fault == 3 && i == cutAfter {
				r.Fault("client_reset_midstream")
				c.conn.Reset()
				break
			}
			r.Op("c2s")
			if err := c.sendRaw(p); err != nil {
				break
			}
			simrt.Yield("c15.client")
		}
		clientDoneSending = true
	})
	_ = cl
	done := func() bool {
		if !w.allClientsDone() || !joined {
			return w.allClientsDone()
		}
		if fault >= 3 {
			return clientDoneSending && backendDoneSending
		}
		return apiDone && clientDoneSending && backendDoneSending && len(gotAtBackend) >= len(c2s) && len(gotAtClient) >= len(s2c)
	}
	why := w.s.RunUntil(20*time.Second, done)
	if why == "steps" {
		r.Inconclusive("step budget exhausted")
		return
	}
	if !joined && fault >= 3 {
		return // the injected reset hit before the join completed; nothing to compare
	}
	if !joined {
		r.Fail("join-failed", "join", "fault-free login/join did not complete for protocol %d (client phase %s, kick %q, backend conns %d; backend state %s)", prot, cl.Phase, cl.KickText(), len(w.backends["lobby"].Conns), w.backends["lobby"].describe())
		return
	}
	w.s.RunUntil(3*time.Second, nil) // drain
	cmp := func(dir string, sent, got [][]byte, lossy bool) bool {
		if len(got) > len(sent) {
			r.Fail("relay-extra", dir, "%s: received %d payloads, only %d were sent (duplication)", dir, len(got), len(sent))
			return false
		}
		for i := range got {
			if !bytes.Equal(got[i], sent[i]) {
				r.Fail("relay-mismatch", dir, "%s: payload #%d differs (sent %d bytes id %#x tag %d, got %d bytes id %#x tag %d): not byte-identical or out of order",
					dir, i, len(sent[i]), sent[i][0], binary.BigEndian.Uint32(sent[i][5:]), len(got[i]), got[i][0], binary.BigEndian.Uint32(got[i][5:]))
				return false
			}
		}
		if !lossy && len(got) != len(sent) {
			r.Fail("relay-lost", dir, "%s: %d of %d payloads arrived although no fault was injected (why=%s; protocol %d; clients %v kick %q; backend %s; connected events %v)", dir, len(got), len(sent), why, prot, clientPhases(w), cl.KickText(), w.backends["lobby"].describe(), proxyEvents(w).Connected)
			return false
		}
		return true
	}
	if !cmp("client->backend", c2s, gotAtBackend, fault >= 3) {
		return
	}
	if !cmp("backend->client", s2c, gotAtClient, fault >= 3) {
		return
	}
	r.State(fmt.Sprintf("p%d thr%d/%d fault%d", prot, w.cfg.Compression.Threshold, backendThr, fault))
	r.Res.Sample = map[string]any{"protocol": int(prot), "client_threshold": w.cfg.Compression.Threshold, "backend_threshold": backendThr, "c2s": nC, "s2c": nS, "fault": fault, "got_backend": len(gotAtBackend), "got_client": len(gotAtClient)}
}
