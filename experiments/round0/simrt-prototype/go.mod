module verif.local/simrt

go 1.26
