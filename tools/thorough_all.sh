#!/bin/sh
# Background sweep: thorough tier for the given properties with a few seeds. Usage: tools/thorough_all.sh "C01 C02" [budget_s]
D="$(cd "$(dirname "$0")/.." && pwd)"
for p in $1; do
  for s in ${SEEDS:-101 202}; do
    VERIF_SEED=$s "$D/vcheck" $p --tier thorough --budget ${2:-300} 2>&1 | grep -v "^  \|KNOWN-FINDING" | tail -3
  done
done
