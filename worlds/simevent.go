package worlds

import (
	"reflect"
	"sort"
	"sync"

	"github.com/robinbraemer/event"
	"go.minekube.com/gate/pkg/zzverif/simrt"
)

// simEvent is a model of robinbraemer/event.Manager with the same observable semantics
// (priority order high->low, panic recovery per subscriber, FireParallel + after funcs)
// whose parallel goroutine is spawned through simrt so that it has a structural id and is
// scheduled by the tape.
type simEvent struct {
	mu   sync.Mutex
	subs map[reflect.Type][]*simSub
	n    int
	Fired map[string]int
}

type simSub struct {
	prio int
	ord  int
	fn   event.HandlerFunc
}

func newSimEvent() *simEvent { return &simEvent{subs: map[reflect.Type][]*simSub{}, Fired: map[string]int{}} }

func evType(e event.Event) reflect.Type {
	if t, ok := e.(reflect.Type); ok {
		return t
	}
	return reflect.TypeOf(e)
}

func (m *simEvent) Subscribe(eventType event.Event, priority int, fn event.HandlerFunc) func() {
	m.mu.Lock()
	defer m.mu.Unlock()
	t := evType(eventType)
	m.n++
	s := &simSub{prio: priority, ord: m.n, fn: fn}
	l := append(m.subs[t], s)
	sort.SliceStable(l, func(i, j int) bool { return l[i].prio > l[j].prio })
	m.subs[t] = l
	return func() {
		m.mu.Lock()
		defer m.mu.Unlock()
		l := m.subs[t]
		for i := range l {
			if l[i] == s {
				m.subs[t] = append(append([]*simSub(nil), l[:i]...), l[i+1:]...)
				break
			}
		}
		if len(m.subs[t]) == 0 {
			delete(m.subs, t)
		}
	}
}

func (m *simEvent) list(e event.Event) []*simSub {
	m.mu.Lock()
	defer m.mu.Unlock()
	m.Fired[evType(e).String()]++
	return append([]*simSub(nil), m.subs[evType(e)]...)
}

func (m *simEvent) Fire(e event.Event) {
	for _, s := range m.list(e) {
		func() {
			defer func() { _ = recover() }()
			s.fn(e)
		}()
	}
}

func (m *simEvent) FireParallel(e event.Event, after ...event.HandlerFunc) {
	simrt.Go(func() {
		m.Fire(e)
		defer func() { _ = recover() }()
		for _, fn := range after {
			fn(e)
		}
	})
}

func (m *simEvent) Wait(events ...event.Event) {}

func (m *simEvent) HasSubscriber(events ...event.Event) bool {
	m.mu.Lock()
	defer m.mu.Unlock()
	if len(events) == 0 {
		return len(m.subs) != 0
	}
	for _, e := range events {
		if len(m.subs[evType(e)]) != 0 {
			return true
		}
	}
	return false
}

func (m *simEvent) UnsubscribeAll(events ...event.Event) int {
	m.mu.Lock()
	defer m.mu.Unlock()
	n := 0
	if len(events) == 0 {
		for _, l := range m.subs {
			n += len(l)
		}
		m.subs = map[reflect.Type][]*simSub{}
		return n
	}
	for _, e := range events {
		n += len(m.subs[evType(e)])
		delete(m.subs, evType(e))
	}
	return n
}

var _ event.Manager = (*simEvent)(nil)
