package worlds

import (
	"context"
	"fmt"
	"time"

	"go.minekube.com/gate/pkg/edition/java/proto/packet"
	"go.minekube.com/gate/pkg/edition/java/proto/version"
	"go.minekube.com/gate/pkg/zzverif/simrt"
)

// C18 — keep-alive replies reach only the backend that asked, once.
//
// A player in play; its backend(s) send keep-alives with ids from a small pool (repeated
// ids, optionally more than 64 outstanding); the client answers in any order, duplicates
// answers, skips some and invents ids. Variant "switch" (1.20.2+): a second backend in the
// configuration phase of a server switch sends keep-alives with overlapping ids at the
// same time. Oracle per backend connection, prefix-wise over its own send/receive log: the
// number of replies received for an id never exceeds the number of keep-alives it sent
// with that id; over all backends the replies forwarded for an id never exceed the replies
// the client sent. Clean variant (unique ids, each answered once, <= 64 outstanding):
// every reply is forwarded exactly once.
func init() {
	Register(&Scenario{Prop: "C18", Desc: "keep-alive replies only to the asking backend, once", Run: runC18,
		Quick: 400, Thorough: 60000,
		Real:  "proxy.Proxy session handlers: recordBackendKeepAlive / consumePendingKeepAlive / sendKeepAliveToBackend, backend config+play+transition handlers, client config+play handlers",
		Model: "client/backend actors; per-backend send/receive log"})
}

func runC18(r *Run) {
	variant := []string{"clean", "hostile", "hostile", "switch"}[r.W.Pick(4)]
	prot := pickProtocol(r)
	if variant == "switch" && prot.Lower(version.Minecraft_1_20_2) && r.W.Pick(2) == 0 {
		prot = version.Minecraft_1_20_2.Protocol // half of the switches with a client that re-enters configuration
	}
	r.Res.Variant = variant
	w := newClassic(r, []string{"s1", "s2"}, nil)
	proxyEvents(w)
	pool := 3 + r.W.Pick(6)
	nKA := 3 + r.W.Pick(30)
	if variant == "hostile" && r.W.Pick(5) == 0 {
		nKA = 70 + r.W.Pick(20) // more than 64 outstanding
	}
	idFor := func(i int) int64 {
		if variant == "clean" {
			return int64(1000 + i)
		}
		return int64(1 + r.W.Pick(pool))
	}
	ids1 := make([]int64, nKA)
	for i := range ids1 {
		ids1[i] = idFor(i)
	}
	backendsDone := 0
	sendAll := func(bc *backendConn, ids []int64, gap int) {
		for _, id := range ids {
			r.Op("keepalive")
			if bc.SendKeepAlive(id) != nil {
				break
			}
			for k := 0; k < gap; k++ {
				simrt.Yield("c18.backend")
			}
		}
		backendsDone++
	}
	gap1 := r.W.Pick(3)
	w.backends["s1"].Beh.OnJoined = func(bc *backendConn) { sendAll(bc, ids1, gap1) }
	wantBackends := 1
	var ids2 []int64
	if variant == "switch" {
		wantBackends = 2
		n2 := 2 + r.W.Pick(10)
		for i := 0; i < n2; i++ {
			ids2 = append(ids2, int64(1+r.W.Pick(pool)))
		}
		s2send := func(bc *backendConn) {
			sendAll(bc, ids2, r.W.Pick(2))
			simrt.Sleep(50*time.Millisecond, "c18.s2-wait-replies")
		}
		if prot.GreaterEqual(version.Minecraft_1_20_2) {
			w.backends["s2"].Beh.OnConfig = s2send
		} else {
			// older clients stay in play during the switch (the proxy sends a keep-alive of its own)
			w.backends["s2"].Beh.OnJoined = s2send
		}
	}
	clientSent := map[int64]int{}
	var cl *clientModel
	cl = w.addClient("Pinger", prot, func(c *clientModel) {
		c.AutoKeepAlive = false
		if !c.Login() {
			return
		}
		c.StartReader()
		if !c.WaitConnected(1) {
			return
		}
		if variant == "switch" {
			pl := w.p.PlayerByName("Pinger")
			simrt.Go(func() {
				simrt.Sleep(time.Duration(r.W.Pick(20))*time.Millisecond, "c18.switch-delay")
				ctx, cancel := context.WithTimeout(context.Background(), 5*time.Second)
				defer cancel()
				r.Op("switch")
				pl.CreateConnectionRequest(w.p.Server("s2")).ConnectWithIndication(ctx)
			})
		}
		handled := 0
		var deferred []int64
		reply := func(id int64) {
			clientSent[id]++
			_ = c.send(&packet.KeepAlive{RandomID: id})
		}
		idle := 0
		for c.Phase != "closed" && idle < 40 {
			if handled < len(c.KeepAlives) {
				idle = 0
				id := c.KeepAlives[handled]
				handled++
				if variant == "clean" {
					r.Op("reply")
					reply(id)
					continue
				}
				switch r.W.Pick(8) {
				case 0:
					r.Op("skip")
				case 1:
					r.Op("reply-twice")
					reply(id)
					reply(id)
				case 2:
					r.Op("defer")
					deferred = append(deferred, id)
				case 3:
					r.Op("invent")
					reply(int64(5000 + r.W.Pick(5)))
					reply(id)
				default:
					r.Op("reply")
					reply(id)
				}
				continue
			}
			if len(deferred) > 0 && r.W.Pick(2) == 0 {
				k := r.W.Pick(len(deferred))
				reply(deferred[k])
				deferred = append(deferred[:k], deferred[k+1:]...)
				continue
			}
			idle++
			simrt.Sleep(5*time.Millisecond, "c18.client-idle")
		}
		for _, id := range deferred {
			reply(id)
		}
		simrt.Sleep(100*time.Millisecond, "c18.drain")
	})
	why := w.s.RunUntil(30*time.Second, func() bool { return w.allClientsDone() })
	if why == "steps" {
		r.Inconclusive("step budget exhausted")
		return
	}
	w.s.RunUntil(2*time.Second, nil)
	if r.CheckDeadlock() {
		return
	}
	if len(cl.JoinGames) == 0 {
		r.Fail("join-failed", "join", "fault-free join failed: %v kick %q", clientPhases(w), cl.KickText())
		return
	}
	totalFwd := map[int64]int{}
	nConns := 0
	for _, bn := range []string{"s1", "s2"} {
		for _, bc := range w.backends[bn].Conns {
			nConns++
			sent, recv := map[int64]int{}, map[int64]int{}
			for _, e := range bc.KALog {
				if e.Sent {
					sent[e.ID]++
					continue
				}
				recv[e.ID]++
				totalFwd[e.ID]++
				if recv[e.ID] > sent[e.ID] {
					r.Fail("reply-without-pending-keepalive", variant, "backend %s#%d received reply #%d for keep-alive id %d but had sent only %d with that id so far (log %v)", bn, bc.idx, recv[e.ID], e.ID, sent[e.ID], kaLogStr(bc.KALog))
					return
				}
			}
		}
	}
	for id, n := range totalFwd {
		if n > clientSent[id] {
			r.Fail("reply-forwarded-more-than-sent", variant, "keep-alive id %d: backends received %d replies but the client sent %d", id, n, clientSent[id])
			return
		}
	}
	if variant == "clean" && nKA <= 60 {
		bc := w.backends["s1"].Conns[0]
		sentN, recvN := 0, 0
		for _, e := range bc.KALog {
			if e.Sent {
				sentN++
			} else {
				recvN++
			}
		}
		if cl.Phase != "closed" && sentN == nKA && recvN != sentN {
			r.Fail("reply-lost", variant, "clean run: backend sent %d unique keep-alives, the client answered each once (%d seen), but only %d replies were forwarded", sentN, len(cl.KeepAlives), recvN)
			return
		}
	}
	_ = wantBackends
	r.State(fmt.Sprintf("%s p%d n%d conns%d", variant, prot, nKA, nConns))
	r.Res.Sample = map[string]any{"variant": variant, "protocol": int(prot), "keepalives_s1": nKA, "keepalives_s2": len(ids2), "client_replies": clientSent, "forwarded": totalFwd}
}

func kaLogStr(l []kaEvent) string {
	s := ""
	for _, e := range l {
		if e.Sent {
			s += fmt.Sprintf("S%d ", e.ID)
		} else {
			s += fmt.Sprintf("R%d ", e.ID)
		}
	}
	return s
}
