package worlds

import (
	"context"
	"errors"
	"fmt"
	"time"

	"go.minekube.com/gate/pkg/edition/java/netmc"
	"go.minekube.com/gate/pkg/edition/java/proto/packet"
	"go.minekube.com/gate/pkg/edition/java/proto/state"
	"go.minekube.com/gate/pkg/gate/proto"
	"go.minekube.com/gate/pkg/zzverif/mcpeer"
	"go.minekube.com/gate/pkg/zzverif/simnet"
	"go.minekube.com/gate/pkg/zzverif/simrt"
)

// C44 — connections tear down exactly once and survive handler panics.
//
// A real netmc minecraftConn over simnet with a recording session handler that panics on
// marked packets. 2–6 goroutines call Close / CloseWith / CloseUnknown / WritePacket (some
// hitting an injected write failure) and switch session handlers, while the read loop ends
// by EOF / reset / (nothing). Oracle: Disconnected() ran exactly once in total once the
// connection is closed; every write invoked after a Close call returned reports an error;
// panics are contained and later packets are still handled; every closer returns (no
// deadlock among concurrent closers).
func init() {
	Register(&Scenario{Prop: "C44", Desc: "connection teardown exactly once; panic containment", Run: runC44,
		Quick: 1500, Thorough: 250000, Crash: true,
		Real:  "netmc.minecraftConn (read loop, closeKnown/closeOnce, closeOnWriteErr, session-handler switching), codec, bufio",
		Model: "peer actor over simnet (EOF, reset, injected write failure); recording session handlers"})
}

type recHandler struct {
	name         string
	disconnected int
	activated    int
	deactivated  int
	handled      int
	panics       int
	seq          *int
	discSeq      int
	run          *Run
}

func (h *recHandler) HandlePacket(pc *proto.PacketContext) {
	h.handled++
	if len(pc.Payload) >= 2 && pc.Payload[1] == 0xEE {
		h.panics++
		h.run.Probe("handler_panic")
		if len(pc.Payload) >= 3 {
			switch pc.Payload[2] % 4 {
			case 1:
				panic("handler gave up") // a string, as gate's own code panics in places
			case 2:
				panic(fmt.Errorf("handler error %d", pc.Payload[2]))
			case 3:
				panic(42)
			}
		}
		var m map[string]int
		m["boom"] = 1 // nil map write: a genuine runtime panic
	}
}
func (h *recHandler) Disconnected() {
	h.disconnected++
	*h.seq++
	h.discSeq = *h.seq
}
func (h *recHandler) Activated()   { h.activated++ }
func (h *recHandler) Deactivated() { h.deactivated++ }

func runC44(r *Run) {
	s := r.NewSim(400000)
	seg := r.SegChoice()
	peer, base := r.Pipe("peer", "gate", simnet.Options{Seg: seg})
	dir := proto.ServerBound
	if r.W.Pick(3) == 0 {
		dir = proto.ClientBound
	}
	conn, readLoop := netmc.NewMinecraftConn(context.Background(), base, dir, 30*time.Second, 30*time.Second, -1, nil)
	seq := 0
	h1 := &recHandler{name: "h1", seq: &seq, run: r}
	h2 := &recHandler{name: "h2", seq: &seq, run: r}
	conn.SetActiveSessionHandler(state.Play, h1)
	// login / server switch / configuration run with auto-reading off: the read loop is
	// parked and cannot notice a dead peer, only a failing write can
	noAutoRead := r.W.Pick(4) == 3
	if noAutoRead {
		conn.SetAutoReading(false)
	}

	// write failure fault: the k-th byte written by gate fails
	if r.F.Pick(4) == 3 {
		base.FailWriteAt(int64(r.F.Pick(40)))
	}
	// peer: sends n frames (some make the handler panic), then EOF / reset / stays silent
	nFrames := r.W.Pick(6)
	peerEnd := r.F.Pick(4) // 0 silent, 1 EOF, 2 reset, 3 EOF
	panicsPlanned := 0
	var frames [][]byte
	for i := 0; i < nFrames; i++ {
		p := []byte{c01ID, 0x01, byte(i)}
		if r.W.Pick(3) == 0 {
			p[1] = 0xEE
			panicsPlanned++
		}
		frames = append(frames, mcpeer.Frame(p, -1, 0))
	}
	peerDone := false
	s.GoNamed("peer", func() {
		defer func() { peerDone = true }()
		for _, f := range frames {
			if _, err := peer.Write(f); err != nil {
				return
			}
			simrt.Yield("c44.peer")
		}
		switch peerEnd {
		case 1, 3:
			_ = peer.Close()
		case 2:
			peer.Reset()
		}
	})
	loopDone := false
	s.GoNamed("readloop", func() {
		readLoop()
		loopDone = true
	})

	type closeRec struct{ inv, ret int }
	var closes []*closeRec
	type writeRec struct {
		inv int
		err error
	}
	var writes []*writeRec
	nActors := 2 + r.W.Pick(5)
	actorsDone := 0
	anyClose := false
	for a := 0; a < nActors; a++ {
		kinds := make([]int, 1+r.W.Pick(3))
		for i := range kinds {
			kinds[i] = r.W.Pick(6)
			if kinds[i] <= 2 {
				anyClose = true
			}
		}
		delay := r.W.Pick(3)
		s.GoNamed(fmt.Sprintf("actor%d", a), func() {
			defer func() { actorsDone++ }()
			for i := 0; i < delay; i++ {
				simrt.Yield("c44.delay")
			}
			for _, k := range kinds {
				switch k {
				case 0:
					r.Op("Close")
					c := &closeRec{}
					seq++
					c.inv = seq
					closes = append(closes, c)
					_ = conn.Close()
					seq++
					c.ret = seq
				case 1:
					r.Op("CloseWith")
					c := &closeRec{}
					seq++
					c.inv = seq
					closes = append(closes, c)
					_ = netmc.CloseWith(conn, &packet.KeepAlive{RandomID: 7})
					seq++
					c.ret = seq
				case 2:
					r.Op("CloseUnknown")
					c := &closeRec{}
					seq++
					c.inv = seq
					closes = append(closes, c)
					_ = netmc.CloseUnknown(conn)
					seq++
					c.ret = seq
				case 3, 4:
					r.Op("WritePacket")
					w := &writeRec{}
					seq++
					w.inv = seq
					writes = append(writes, w)
					w.err = conn.WritePacket(&packet.KeepAlive{RandomID: 9})
					if w.err == nil {
						w.err = nil
					}
				case 5:
					r.Op("SwitchHandler")
					conn.SetActiveSessionHandler(state.Play, h2)
				}
				simrt.Yield("c44.actor")
			}
		})
	}
	_ = anyClose
	why := s.RunUntil(5*time.Second, func() bool {
		return actorsDone == nActors && peerDone && (loopDone || peerEnd == 0 || noAutoRead)
	})
	if noAutoRead && !r.Failed() && why != "steps" {
		// a write that failed for any reason other than "already closed" must have closed
		// the connection (the parked read loop cannot)
		for _, w := range writes {
			if w.err != nil && !errors.Is(w.err, netmc.ErrClosedConn) && !netmc.Closed(conn) {
				r.Fail("write-error-left-connection-open", "no-auto-read", "WritePacket failed with %v while auto-reading was off, and the connection is still open (Disconnected ran %d times)", w.err, h1.disconnected+h2.disconnected)
				return
			}
		}
		_ = conn.Close() // let the parked loop end
	}
	// cool-down: let the peer go away so that the read loop must end
	if !r.Failed() {
		_ = peer.Close()
		why = s.RunUntil(5*time.Second, func() bool { return actorsDone == nActors && loopDone })
	}
	if why == "steps" {
		r.Inconclusive("step budget exhausted")
		return
	}
	if actorsDone != nActors || !loopDone {
		r.Fail("closer-stuck", "stuck", "after the peer closed and faults stopped: %d/%d actors returned, read loop ended=%v; lock waiters=%+v parked=%+v", actorsDone, nActors, loopDone, s.LockWaiters(), s.Parked())
		return
	}
	if !netmc.Closed(conn) {
		r.Fail("not-closed", "open", "read loop ended but the connection does not report closed")
		return
	}
	total := h1.disconnected + h2.disconnected
	if total != 1 {
		r.Fail("teardown-count", fmt.Sprintf("count=%d", min(total, 2)), "session teardown (Disconnected) ran %d times in total (h1=%d h2=%d) for one closed connection; closes=%d", total, h1.disconnected, h2.disconnected, len(closes))
		return
	}
	// writes that started after some Close returned must fail
	firstRet := 0
	for _, c := range closes {
		if c.ret != 0 && (firstRet == 0 || c.ret < firstRet) {
			firstRet = c.ret
		}
	}
	for _, w := range writes {
		if firstRet != 0 && w.inv > firstRet && w.err == nil {
			r.Fail("write-after-close-succeeded", "write", "a WritePacket invoked (seq %d) after a Close call had returned (seq %d) reported success", w.inv, firstRet)
			return
		}
	}
	// panic containment: the loop kept going after each panic
	if h1.panics+h2.panics > 0 {
		r.Probe("panic_contained")
	}
	// without closers and write failures every frame must have been handled
	if len(closes) == 0 && peerEnd != 2 && !noAutoRead {
		wfail := r.Net.WriteFailures > 0
		for _, w := range writes {
			if w.err != nil {
				wfail = true // a failed write legitimately closes the connection
			}
		}
		if !wfail && h1.handled+h2.handled != nFrames {
			r.Fail("packets-lost-after-panic", "handled", "peer sent %d frames (%d panicking) before closing, handler saw %d", nFrames, panicsPlanned, h1.handled+h2.handled)
			return
		}
	}
	r.State(fmt.Sprintf("closes%d writes%d end%d panics%d", len(closes), len(writes), peerEnd, h1.panics+h2.panics))
	r.Res.Sample = map[string]any{"actors": nActors, "closes": len(closes), "writes": len(writes), "peer_end": peerEnd, "frames": nFrames, "panics": h1.panics + h2.panics, "disconnected_h1": h1.disconnected, "disconnected_h2": h2.disconnected}
}
