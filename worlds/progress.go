package worlds

import "sync/atomic"

// progressExtra lets long non-simulated computations tell the watchdog they are alive.
var progressExtra atomic.Int64

// running is true while a simulated run is in progress (the watchdog only counts then).
var running atomic.Bool
