package worlds

import (
	"fmt"
	"strings"
	"time"

	liteconfig "go.minekube.com/gate/pkg/edition/java/lite/config"
	"go.minekube.com/gate/pkg/zzverif/simrt"
)

// C29 — Lite routes the first route whose host pattern matches the cleaned host.
//
// Real proxy in Lite mode; tape-generated route lists with glob patterns ('*', '?', dots,
// regex metacharacters, case, non-ASCII) and $n backend templates; clients send handshakes
// with generated hosts (Forge / TCPShield suffixes, surrounding dots, control characters).
// Oracle: a reference glob matcher (backtracking, no regexp) + first-match search +
// substitution predicts the set of admissible backend address lists; observed = the
// addresses passed to the simulated dialer; no match => client closed and zero dials.
func init() {
	Register(&Scenario{Prop: "C29", Desc: "lite routing: first matching route, glob semantics, $n substitution", Run: runC29,
		Quick: 600, Thorough: 200000,
		Real:  "proxy handshake handler -> lite.Forward/findRoute/FindRouteWithGroups/substituteBackendParams, ClearVirtualHost, strategy (sequential)",
		Model: "raw client; simulated dialer (all backends refuse, so the whole candidate list is dialled in order); refGlob reference matcher"})
}

var c29Alphabet = []string{"a", "b", "play", "mc", ".", ".", "-", "x", "1", "é", "+", "(", "[", "$", "^", "\\", "|"}

func genHostOrPattern(r *Run, pattern bool) string {
	n := 1 + r.W.Pick(5)
	var b strings.Builder
	for i := 0; i < n; i++ {
		if pattern && r.W.Pick(3) == 0 {
			b.WriteString([]string{"*", "?", "*."}[r.W.Pick(3)])
			continue
		}
		b.WriteString(c29Alphabet[r.W.Pick(len(c29Alphabet))])
	}
	s := b.String()
	if r.W.Pick(4) == 0 {
		s = strings.ToUpper(s)
	}
	return s
}

func runC29(r *Run) {
	nRoutes := 1 + r.W.Pick(4)
	var routes []liteconfig.Route
	hostPool := []string{}
	for i := 0; i < nRoutes; i++ {
		var hosts []string
		for k := 0; k <= r.W.Pick(2); k++ {
			h := genHostOrPattern(r, true)
			hosts = append(hosts, h)
			hostPool = append(hostPool, h)
		}
		var backends []string
		for k := 0; k <= r.W.Pick(2); k++ {
			tmpl := fmt.Sprintf("10.%d.%d.1:25565", i+1, k+1)
			if r.W.Pick(3) == 0 {
				tmpl = fmt.Sprintf("$%d.r%d.b%d.test:25565", 1+r.W.Pick(2), i, k)
			}
			backends = append(backends, tmpl)
		}
		routes = append(routes, liteconfig.Route{Host: hosts, Backend: backends, Strategy: liteconfig.StrategySequential})
	}
	ref := cloneRoutes(routes) // the reference keeps its own copy: the configuration must not change by being used
	w := newLite(r, routes, nil)
	defer w.finish()
	nConn := 1 + r.W.Pick(3)
	for ci := 0; ci < nConn; ci++ {
		if !c29One(r, w, ref, hostPool, ci) {
			return
		}
	}
}

// c29One routes one connection; false ends the run (violation or inconclusive).
func c29One(r *Run, w *liteWorld, routes []liteconfig.Route, hostPool []string, ci int) bool {
	dialsBefore := len(w.dials)
	// client host: derived from a pattern (so matches happen) or random
	var host string
	if r.W.Pick(3) != 0 && len(hostPool) > 0 {
		pat := hostPool[r.W.Pick(len(hostPool))]
		var b strings.Builder
		for _, ch := range pat {
			switch ch {
			case '*':
				b.WriteString([]string{"", "sub", "a.b", "Zz", "x\ny"}[r.W.Pick(5)])
			case '?':
				b.WriteString([]string{"q", "7", "Q", "é"}[r.W.Pick(4)])
			default:
				b.WriteRune(ch)
			}
		}
		host = b.String()
	} else {
		host = genHostOrPattern(r, false)
	}
	clean := host
	switch r.W.Pick(6) {
	case 1:
		host = host + "\x00FML\x00"
	case 2:
		host = host + "///203.0.113.7:1234///1700000000"
	case 3:
		host = "." + host + "."
		clean = strings.Trim(clean, ".")
	case 4:
		host = host + "\x00FML3\x00"
	}
	clean = refCleanHost(host)
	if len(host) > 255 {
		host = host[:255]
		clean = refCleanHost(host)
	}
	r.Op("connect")
	c := w.connect("172.30.0.5")
	done := false
	w.s.GoNamed(fmt.Sprintf("lclient%d", ci), func() {
		defer func() { done = true }()
		_, _ = c.conn.Write(handshakeFrame(763, host, 25565, 2))
		c.readAll()
	})
	why := w.s.RunUntil(60*time.Second, func() bool { return done })
	if why == "steps" {
		r.Inconclusive("step budget exhausted")
		return false
	}
	simrt.DriverCall(func() {})
	// reference: first route (in order) having a host pattern that matches
	var wantLists [][]string
	matchedRoute := -1
	for i, rt := range routes {
		for _, hp := range rt.Host {
			ok, caps := refGlob(hp, clean)
			if !ok {
				continue
			}
			matchedRoute = i
			seen := map[string]bool{}
			for _, cp := range caps {
				var l []string
				for _, tmpl := range rt.Backend {
					res := tmpl
					for k := len(cp); k >= 1; k-- {
						res = strings.ReplaceAll(res, fmt.Sprintf("$%d", k), cp[k-1])
					}
					l = append(l, res)
				}
				key := strings.Join(l, ",")
				if !seen[key] {
					seen[key] = true
					wantLists = append(wantLists, l)
				}
			}
			break
		}
		if matchedRoute >= 0 {
			break
		}
	}
	var got []string
	for _, d := range w.dials[dialsBefore:] {
		got = append(got, d.Addr)
	}
	desc := fmt.Sprintf("connection #%d routes=%s host=%q cleaned=%q matched-route=%d admissible=%v dialled=%v", ci+1, routesStr(routes), host, clean, matchedRoute, wantLists, got)
	if matchedRoute < 0 {
		if len(got) != 0 {
			r.Fail("dialled-without-matching-route", "nomatch", "no route matches but a backend was dialled: %s", desc)
			return false
		}
		if !c.EOF {
			r.Fail("unrouted-client-not-closed", "nomatch", "no route matches but the client connection was not closed: %s", desc)
			return false
		}
		r.State("nomatch")
		return true
	}
	ok := false
	for _, l := range wantLists {
		if strings.Join(l, ",") == strings.Join(got, ",") {
			ok = true
		}
	}
	if !ok {
		sig := "route"
		if strings.ContainsAny(clean, "\n\r") {
			sig = "host-with-newline"
		}
		if len(got) == 0 {
			sig += ":not-routed"
		}
		r.Fail("wrong-route-or-backends", sig, "the connection was not routed as the first matching route demands: %s", desc)
		return false
	}
	r.State(fmt.Sprintf("r%d n%d", matchedRoute, len(got)))
	r.Res.Sample = map[string]any{"routes": routesStr(routes), "host": host, "cleaned": clean, "route": matchedRoute, "dialled": got}
	return true
}

func routesStr(rs []liteconfig.Route) string {
	var out []string
	for _, r := range rs {
		out = append(out, fmt.Sprintf("%q->%q", []string(r.Host), []string(r.Backend)))
	}
	return strings.Join(out, " ; ")
}
