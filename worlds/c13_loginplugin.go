package worlds

import (
	"bytes"
	"fmt"
	"time"

	"github.com/robinbraemer/event"
	"go.minekube.com/gate/pkg/edition/java/proto/packet"
	"go.minekube.com/gate/pkg/edition/java/proto/version"
	"go.minekube.com/gate/pkg/edition/java/proxy"
	"go.minekube.com/gate/pkg/edition/java/proxy/message"
	"go.minekube.com/gate/pkg/gate/proto"
	"go.minekube.com/gate/pkg/zzverif/simrt"
)

// C13 — login plugin messages are answered exactly once by the matching consumer.
//
// A PreLogin subscriber sends 0-4 login plugin messages synchronously and a helper
// goroutine sends 0-3 more at tape-chosen later moments; some consumers send follow-ups
// from inside OnMessageResponse. The client answers in any order, duplicates answers,
// answers unknown ids, with success or failure. Oracle: every consumer is invoked at most
// once and only with the body of the response carrying its id (nil on failure); unknown
// ids cause nothing; the login-completion step (observed as GameProfileRequestEvent) runs
// exactly once per connection, after every message sent during the pre-login event was
// answered.
func init() {
	Register(&Scenario{Prop: "C13", Desc: "login plugin messages: matching consumer once; completion once", Run: runC13,
		Quick: 500, Thorough: 80000,
		Real:  "proxy.Proxy: loginInboundConn (SendLoginPluginMessage, handleLoginPluginResponse, loginEventFired), initial login + auth session handlers",
		Model: "client actor with scripted responder; PreLogin subscriber + async sender; recording consumers"})
}

type c13consumer struct {
	must    bool // sent inside the pre-login handler or inside such a consumer's callback: completion has to wait for it
	id      int  // message index (harness), not the wire id
	calls   int
	bodies  [][]byte
	onReply func()
	seqs    []int
}

func (c *c13consumer) OnMessageResponse(body []byte) error {
	c.calls++
	if body == nil {
		c.bodies = append(c.bodies, nil)
	} else {
		c.bodies = append(c.bodies, append([]byte{}, body...))
	}
	if c.onReply != nil {
		c.onReply()
	}
	return nil
}

func runC13(r *Run) {
	if r.W.Pick(4) == 3 {
		runC13ForgeRelay(r)
		return
	}
	prots := []proto.Protocol{version.Minecraft_1_20_2.Protocol, version.Minecraft_1_20.Protocol, version.Minecraft_1_15.Protocol, version.Minecraft_1_19_4.Protocol, version.Minecraft_1_21.Protocol, version.Minecraft_1_13.Protocol}
	prot := prots[r.W.Pick(len(prots))]
	w := newClassic(r, []string{"lobby"}, nil)
	proxyEvents(w)
	chID, _ := message.ChannelIdentifierFrom("verif:login")
	nSync := r.W.Pick(5)
	nAsync := r.W.Pick(4)
	var consumers []*c13consumer
	contentOf := map[int]int{} // wire content tag -> consumer index
	var lpc proxy.LoginPhaseConnection
	completions := 0
	syncAnsweredAtCompletion := true
	seq := 0
	sendMsg := func(parent string, followUps int, must bool) *c13consumer {
		c := &c13consumer{id: len(consumers), must: must}
		consumers = append(consumers, c)
		contentOf[c.id] = c.id
		if followUps > 0 && r.W.Pick(3) == 0 {
			c.onReply = func() {
				r.Op("followup")
				sendMsgHook(followUps-1, must)
			}
		}
		r.Op(parent)
		_ = lpc.SendLoginPluginMessage(chID, []byte{byte('Q'), byte(c.id)}, c)
		return c
	}
	sendMsgHook = func(f int, must bool) { sendMsg("followup-send", f, must) }
	asyncDelays := make([]int, nAsync)
	for i := range asyncDelays {
		asyncDelays[i] = r.W.Pick(60)
	}
	proxyEvents(w).onPreLogin = func(e *proxy.PreLoginEvent) {
		l, ok := e.Conn().(proxy.LoginPhaseConnection)
		if !ok {
			r.HarnessError("PreLoginEvent.Conn() is not a LoginPhaseConnection")
			return
		}
		lpc = l
		for i := 0; i < nSync; i++ {
			sendMsg("sync-send", 2, true)
		}
		if nAsync > 0 {
			simrt.Go(func() {
				for i := 0; i < nAsync; i++ {
					for k := 0; k < asyncDelays[i]; k++ {
						simrt.Yield("c13.async-delay")
					}
					if !lpc.Active() {
						return
					}
					sendMsg("async-send", 1, false)
				}
			})
		}
	}
	event.Subscribe(w.ev, 0, func(e *proxy.GameProfileRequestEvent) {
		completions++
		seq++
		for _, c := range consumers {
			// every message sent inside the pre-login handler, and every follow-up sent
			// from inside such a message's consumer, is outstanding before the completion
			// can be decided
			if c.must && c.calls == 0 {
				syncAnsweredAtCompletion = false
			}
		}
	})

	// client: collect login plugin messages; a responder goroutine answers per tape
	type pending struct {
		wireID int
		tag    int
	}
	var inbox []pending
	respSent := map[int][]struct {
		ok   bool
		body []byte
	}{} // by wire id, in send order
	wireOf := map[int]int{} // consumer index -> wire id
	var cl *clientModel
	cl = w.addClient("Plugger", prot, func(c *clientModel) {
		c.OnLoginPlugin = func(m *packet.LoginPluginMessage) *packet.LoginPluginResponse {
			tag := -1
			if len(m.Data) == 2 && m.Data[0] == 'Q' {
				tag = int(m.Data[1])
				wireOf[tag] = m.ID
			}
			inbox = append(inbox, pending{m.ID, tag})
			return nil // answered by the responder
		}
		responderDone := false
		simrt.Go(func() {
			defer func() { responderDone = true }()
			answered := 0
			idle := 0
			for c.Phase == "login" && idle < 200 {
				if answered >= len(inbox) {
					idle++
					simrt.Yield("c13.responder-idle")
					continue
				}
				idle = 0
				// choose which pending message to answer (any order)
				k := answered + r.W.Pick(len(inbox)-answered)
				inbox[answered], inbox[k] = inbox[k], inbox[answered]
				m := inbox[answered]
				answered++
				send := func(id int, ok bool, body []byte) {
					respSent[id] = append(respSent[id], struct {
						ok   bool
						body []byte
					}{ok, body})
					_ = c.send(&packet.LoginPluginResponse{ID: id, Success: ok, Data: body})
				}
				ok := r.W.Pick(4) != 0
				body := []byte{'A', byte(m.tag), byte(r.W.Pick(250))}
				switch r.W.Pick(6) {
				case 0:
					r.Op("answer-unknown-id")
					send(9000+r.W.Pick(5), true, []byte("bogus"))
					send(m.wireID, ok, body)
				case 1:
					r.Op("answer-twice")
					send(m.wireID, ok, body)
					send(m.wireID, !ok, []byte("second"))
				default:
					r.Op("answer")
					send(m.wireID, ok, body)
				}
				for y, n := 0, r.W.Pick(3); y < n; y++ {
					simrt.Yield("c13.responder")
				}
			}
		})
		joined := c.Login()
		if joined {
			c.StartReader()
			simrt.Sleep(100*time.Millisecond, "c13.stay")
		}
		for !responderDone && c.Phase != "closed" {
			simrt.Sleep(5*time.Millisecond, "c13.wait-responder")
		}
		c.Close()
	})
	why := w.s.RunUntil(30*time.Second, func() bool { return w.allClientsDone() })
	if why == "steps" {
		r.Inconclusive("step budget exhausted")
		return
	}
	if r.CheckDeadlock() {
		return
	}
	desc := func() string {
		var cs []string
		for _, c := range consumers {
			cs = append(cs, fmt.Sprintf("#%d:calls=%d", c.id, c.calls))
		}
		return fmt.Sprintf("protocol %d sync=%d async=%d consumers %v completions=%d client=%v kick=%q", prot, nSync, nAsync, cs, completions, clientPhases(w), cl.KickText())
	}
	for _, c := range consumers {
		if c.calls > 1 {
			r.Fail("consumer-invoked-twice", "consumer", "consumer of message #%d was invoked %d times: %s", c.id, c.calls, desc())
			return
		}
		if c.calls == 1 {
			wid, known := wireOf[c.id]
			if !known || len(respSent[wid]) == 0 {
				r.Fail("consumer-invoked-without-response", "consumer", "consumer of message #%d was invoked but the client never answered its id: %s", c.id, desc())
				return
			}
			first := respSent[wid][0]
			var want []byte
			if first.ok {
				want = first.body
			}
			if !bytes.Equal(c.bodies[0], want) || (want == nil) != (c.bodies[0] == nil) {
				r.Fail("consumer-got-wrong-body", "consumer", "consumer of message #%d got body %q; the first response carrying its id had success=%v body %q: %s", c.id, c.bodies[0], first.ok, first.body, desc())
				return
			}
		}
	}
	if completions > 1 {
		r.Fail("login-completion-ran-twice", fmt.Sprintf("async=%v", nAsync > 0), "the login-completion step ran %d times for one connection: %s", completions, desc())
		return
	}
	if cl.LoginSuccess != nil && completions != 1 {
		r.Fail("login-completed-without-completion-step", "completion", "client logged in but completion step count is %d: %s", completions, desc())
		return
	}
	if completions == 1 && !syncAnsweredAtCompletion {
		r.Fail("completion-before-all-answered", "completion", "login completion ran while a message sent during the pre-login event was still unanswered: %s", desc())
		return
	}
	if nSync+nAsync == 0 && cl.LoginSuccess == nil {
		r.Fail("join-failed", "join", "fault-free login without plugin messages failed: %s", desc())
		return
	}
	r.State(fmt.Sprintf("p%d s%d a%d c%d done%d", prot, nSync, nAsync, len(consumers), completions))
	r.Res.Sample = map[string]any{"protocol": int(prot), "sync": nSync, "async": nAsync, "consumers": len(consumers), "completions": completions, "logged_in": cl.LoginSuccess != nil}
}

var sendMsgHook func(int, bool)

// runC13ForgeRelay: a Modern Forge client before 1.20.2 stays in the login state while the
// backend's fml:loginwrapper login plugin messages are relayed to it; each must be answered
// to the backend exactly once, with the client's own reply (success flag and body) for
// that message.
func runC13ForgeRelay(r *Run) {
	r.Res.Variant = "forge-relay"
	prots := []proto.Protocol{version.Minecraft_1_13.Protocol, version.Minecraft_1_15.Protocol, version.Minecraft_1_19_4.Protocol, version.Minecraft_1_20.Protocol, version.Minecraft_1_18_2.Protocol}
	prot := prots[r.W.Pick(len(prots))]
	w := newClassic(r, []string{"lobby"}, nil)
	proxyEvents(w)
	marker := "\x00FML2\x00"
	if prot.GreaterEqual(version.Minecraft_1_18) {
		marker = "\x00FML3\x00"
	}
	n := 1 + r.W.Pick(5)
	type plan struct {
		ok   bool
		body []byte
	}
	plans := make([]plan, n)
	reqData := make([][]byte, n)
	beID := make([]int, n)
	for i := range plans {
		switch r.W.Pick(5) {
		case 0:
			plans[i] = plan{ok: false}
		case 1:
			plans[i] = plan{ok: true, body: []byte{}} // success without payload bytes
		default:
			plans[i] = plan{ok: true, body: append([]byte{byte(i)}, genBytes(r, 40)...)}
		}
		reqData[i] = append([]byte{'F', byte(i)}, genBytes(r, 30)...)
		beID[i] = []int{0, 1, 77, 1000}[r.W.Pick(4)] + i*3
	}
	type beResp struct {
		id   int
		ok   bool
		data []byte
	}
	var got []beResp
	beErr := ""
	w.backends["lobby"].Beh.OnLogin = func(bc *backendConn) {
		for i := 0; i < n; i++ {
			r.Op("backend-login-plugin-message")
			if err := bc.send(&packet.LoginPluginMessage{ID: beID[i], Channel: "fml:loginwrapper", Data: reqData[i]}); err != nil {
				return
			}
			if r.W.Pick(2) == 0 {
				continue // pipelined: read the answers later
			}
			for len(got) <= i {
				rec, err := bc.w.read()
				if err != nil {
					beErr = err.Error()
					return
				}
				if p, ok := rec.Packet.(*packet.LoginPluginResponse); ok {
					got = append(got, beResp{p.ID, p.Success, append([]byte{}, p.Data...)})
				}
			}
		}
		for len(got) < n {
			rec, err := bc.w.read()
			if err != nil {
				beErr = err.Error()
				return
			}
			if p, ok := rec.Packet.(*packet.LoginPluginResponse); ok {
				got = append(got, beResp{p.ID, p.Success, append([]byte{}, p.Data...)})
			}
		}
	}
	relayed := 0
	cl := w.addClient("Forger", prot, func(c *clientModel) {
		c.Host = "play.example.com" + marker
		c.OnLoginPlugin = func(m *packet.LoginPluginMessage) *packet.LoginPluginResponse {
			relayed++
			if m.Channel != "fml:loginwrapper" || len(m.Data) < 2 || m.Data[0] != 'F' {
				return &packet.LoginPluginResponse{ID: m.ID, Success: false}
			}
			pl := plans[int(m.Data[1])%n]
			r.Op("client-answer")
			return &packet.LoginPluginResponse{ID: m.ID, Success: pl.ok, Data: pl.body}
		}
		if c.Login() {
			c.StartReader()
			simrt.Sleep(50*time.Millisecond, "c13.stay")
		}
		c.Close()
	})
	why := w.s.RunUntil(30*time.Second, func() bool { return w.allClientsDone() })
	if why == "steps" {
		r.Inconclusive("step budget exhausted")
		return
	}
	if r.CheckDeadlock() {
		return
	}
	desc := func() string {
		var ps, gs []string
		for i, p := range plans {
			ps = append(ps, fmt.Sprintf("#%d(id %d): ok=%v %d bytes", i, beID[i], p.ok, len(p.body)))
		}
		for _, g := range got {
			gs = append(gs, fmt.Sprintf("id %d ok=%v %d bytes", g.id, g.ok, len(g.data)))
		}
		return fmt.Sprintf("protocol=%d relayed-to-client=%d client-replies=%v backend-received=%v backend-read-error=%q client=%v kick=%q", prot, relayed, ps, gs, beErr, clientPhases(w), cl.KickText())
	}
	if len(cl.JoinGames) == 0 {
		r.Fail("forge-relay-join-failed", "join", "a Modern Forge client whose replies all arrive did not get through the relayed login: %s", desc())
		return
	}
	count := map[int]int{}
	for _, g := range got {
		count[g.id]++
	}
	for i, p := range plans {
		if count[beID[i]] != 1 {
			r.Fail("relayed-message-not-answered-once", "count", "backend message #%d (id %d) was answered %d times: %s", i, beID[i], count[beID[i]], desc())
			return
		}
		for _, g := range got {
			if g.id != beID[i] {
				continue
			}
			wantBody := p.body
			if !p.ok {
				wantBody = nil
			}
			if g.ok != p.ok || !bytes.Equal(g.data, wantBody) {
				r.Fail("relayed-reply-differs", fmt.Sprintf("ok=%v empty=%v", p.ok, len(p.body) == 0), "backend message #%d (id %d): the client replied success=%v with %d bytes, the backend was told success=%v with %d bytes: %s", i, beID[i], p.ok, len(p.body), g.ok, len(g.data), desc())
				return
			}
		}
	}
	r.State(fmt.Sprintf("forge p%d n%d", prot, n))
	r.Res.Sample = map[string]any{"variant": "forge-relay", "protocol": int(prot), "messages": n, "relayed": relayed}
}
