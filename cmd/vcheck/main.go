// Command vcheck is the check driver: it instruments /repo's current working tree into an
// overlay, builds the simulation binary, fans seeded runs out over worker processes,
// shrinks and replays violations, matches known findings and writes evidence.
//
// Exit status: 0 property held on everything explored (known findings are printed as
// KNOWN-FINDING lines); 1 + "VIOLATION property=<id> replay=<path>"; 2 harness / build /
// watchdog / nondeterminism trouble (never a violation).
package main

import (
	"bufio"
	"bytes"
	"crypto/sha256"
	"encoding/hex"
	"encoding/json"
	"flag"
	"fmt"
	"io"
	"os"
	"os/exec"
	"path/filepath"
	"regexp"
	"runtime"
	"sort"
	"strconv"
	"strings"
	"sync"
	"syscall"
	"time"
)

const (
	repoDir = "/repo"
	goBin   = "/opt/veriftools/go1.26.8/bin"
)

// verifDir is /verif unless VERIF_DIR is set (background runs from a snapshot).
var verifDir = func() string {
	if d := os.Getenv("VERIF_DIR"); d != "" {
		return d
	}
	return "/verif"
}()

var instrPkgs = []string{
	"./pkg/edition/java/proxy", "./pkg/edition/java/netmc", "./pkg/edition/java/lite",
	"./pkg/edition/java/proto/codec", "./pkg/edition/java/proto/util/queue",
	"./pkg/edition/java/proxy/internal/resourcepack", "./pkg/edition/java/proxy/bungeecord",
	"./pkg/edition/java/auth", "./pkg/internal/future", "./pkg/internal/tablist",
	"./pkg/internal/reload", "./pkg/internal/addrquota", "./pkg/internal/packetlimiter",
	"./pkg/gate", "./pkg/edition/java/proxy/message", "./pkg/edition/java/proxy/crypto",
	"./pkg/edition/java/bossbar", "./pkg/internal/connwrap",
}

type Tapes struct {
	W []uint32 `json:"w"`
	S []uint32 `json:"s"`
	F []uint32 `json:"f"`
	A []uint32 `json:"a"`
}

type Violation struct {
	Class  string `json:"class"`
	Detail string `json:"detail"`
	Sig    string `json:"sig"`
}

type Result struct {
	Race       string         `json:"race_report,omitempty"`
	ID         int            `json:"id"`
	Start      *int           `json:"start,omitempty"`
	Prop       string         `json:"prop"`
	Index      int            `json:"index"`
	Seed       uint64         `json:"seed"`
	Hash       string         `json:"hash"`
	Steps      int            `json:"steps"`
	Picks      int            `json:"picks"`
	NonDflt    int            `json:"nondflt"`
	MaxCands   int            `json:"maxcands"`
	Adopted    int            `json:"adopted"`
	SimMs      int64          `json:"sim_ms"`
	Ops        int            `json:"ops"`
	OpKinds    string         `json:"opkinds"`
	Faults     map[string]int `json:"faults"`
	Probes     map[string]int `json:"probes"`
	Variant    string         `json:"variant"`
	Viol       *Violation     `json:"viol"`
	Harness    string         `json:"harness_error"`
	Leaked     int            `json:"leaked"`
	Tapes      *Tapes         `json:"tapes"`
	Trace      []string       `json:"trace"`
	Sample     any            `json:"sample"`
	Strategy   int            `json:"strategy"`
	States     []string       `json:"states"`
	NonTrivial bool           `json:"nontrivial"`
	Used       []int          `json:"used"`
	Inconcl    string         `json:"inconclusive"`
}

type ScenarioInfo struct {
	Prop      string   `json:"prop"`
	Desc      string   `json:"desc"`
	Quick     int      `json:"quick"`
	Thorough  int      `json:"thorough"`
	Race      bool     `json:"race"`
	RaceScope []string `json:"race_scope"`
	Crash     bool     `json:"crash_is_violation"`
	Real      string   `json:"real"`
	Model     string   `json:"model"`
	Rule      string   `json:"rule"`
	Assume    []string `json:"assume"`
}

type Finding struct {
	Property string `json:"property"`
	Class    string `json:"class"`
	Sig      string `json:"sig"`    // regexp matched against the violation signature
	Status   string `json:"status"` // "open" | "fixed"
	Commit   string `json:"commit,omitempty"`
	What     string `json:"what"`
}

func die2(format string, args ...any) {
	fmt.Fprintf(os.Stderr, "vcheck: "+format+"\n", args...)
	exitClean(2)
}

func goEnv() []string {
	env := os.Environ()
	env = append(env, "GOFLAGS=-mod=mod", "GOPROXY=off", "GOSUMDB=off", "GOTOOLCHAIN=local", "CGO_ENABLED=1",
		"PATH="+goBin+":"+os.Getenv("PATH"))
	return env
}

func hashFiles(h io.Writer, root string, filter func(string) bool) {
	var files []string
	_ = filepath.Walk(root, func(path string, info os.FileInfo, err error) error {
		if err != nil {
			return nil
		}
		if info.IsDir() {
			n := info.Name()
			if n == ".git" || n == "node_modules" || n == ".work" || n == "evidence" || n == "replays" || n == "experiments" || n == "seeded" || n == ".web" {
				return filepath.SkipDir
			}
			return nil
		}
		if filter(path) {
			files = append(files, path)
		}
		return nil
	})
	sort.Strings(files)
	for _, f := range files {
		b, err := os.ReadFile(f)
		if err != nil {
			continue
		}
		fmt.Fprintf(h, "%s %d\n", f, len(b))
		h.Write(b)
	}
}

func goFilter(p string) bool {
	return strings.HasSuffix(p, ".go") || strings.HasSuffix(p, "go.mod") || strings.HasSuffix(p, "go.sum")
}

type build struct {
	bin        string
	overlay    string
	treeHash   string
	instrStats json.RawMessage
}

func run(dir string, env []string, name string, args ...string) ([]byte, error) {
	cmd := exec.Command(name, args...)
	cmd.Dir = dir
	cmd.Env = env
	return cmd.CombinedOutput()
}

// ensureBuilt instruments /repo's working tree and builds the simulation binary. Cached by
// content hash of every Go source in /repo and in the harness.
func ensureBuilt(race bool) *build {
	work := filepath.Join(verifDir, ".work")
	_ = os.MkdirAll(work, 0o755)
	lock, err := os.OpenFile(filepath.Join(work, "lock"), os.O_CREATE|os.O_RDWR, 0o644)
	if err != nil {
		die2("lock: %v", err)
	}
	defer lock.Close()
	if err := syscall.Flock(int(lock.Fd()), syscall.LOCK_EX); err != nil {
		die2("flock: %v", err)
	}
	defer syscall.Flock(int(lock.Fd()), syscall.LOCK_UN)

	// instrumenter binary
	instrBin := filepath.Join(verifDir, "bin", "instr")
	ih := sha256.New()
	hashFiles(ih, filepath.Join(verifDir, "tools", "instr"), goFilter)
	instrHash := hex.EncodeToString(ih.Sum(nil))[:16]
	stamp := filepath.Join(work, "instr.stamp")
	if b, _ := os.ReadFile(stamp); string(b) != instrHash || !exists(instrBin) {
		_ = os.MkdirAll(filepath.Join(verifDir, "bin"), 0o755)
		out, err := run(filepath.Join(verifDir, "tools", "instr"), goEnv(), "go", "build", "-o", instrBin, ".")
		if err != nil {
			die2("building instrumenter failed: %v\n%s", err, out)
		}
		_ = os.WriteFile(stamp, []byte(instrHash), 0o644)
	}

	th := sha256.New()
	fmt.Fprintf(th, "instr %s\n", instrHash)
	hashFiles(th, repoDir, goFilter)
	hashFiles(th, filepath.Join(verifDir, "inject"), goFilter)
	treeHash := hex.EncodeToString(th.Sum(nil))[:16]
	idir := filepath.Join(work, "instr-"+treeHash)
	overlay := filepath.Join(idir, "overlay.json")
	if !exists(overlay) {
		// remove stale instrumentations
		if ents, err := os.ReadDir(work); err == nil {
			for _, e := range ents {
				if strings.HasPrefix(e.Name(), "instr-") {
					_ = os.RemoveAll(filepath.Join(work, e.Name()))
				}
			}
		}
		tmp := idir + ".tmp"
		_ = os.RemoveAll(tmp)
		args := append([]string{"-out", tmp, "-dir", repoDir, "-inject", filepath.Join(verifDir, "inject")}, instrPkgs...)
		out, err := run(verifDir, goEnv(), instrBin, args...)
		if err != nil {
			die2("instrumenting /repo failed (fail-closed; not a violation): %v\n%s", err, out)
		}
		// paths inside overlay.json refer to tmp; rewrite to final
		b, _ := os.ReadFile(filepath.Join(tmp, "overlay.json"))
		b = bytes.ReplaceAll(b, []byte(tmp+"/"), []byte(idir+"/"))
		_ = os.WriteFile(filepath.Join(tmp, "overlay.json"), b, 0o644)
		if err := os.Rename(tmp, idir); err != nil {
			die2("rename: %v", err)
		}
	}
	hh := sha256.New()
	fmt.Fprintf(hh, "tree %s race=%v\n", treeHash, race)
	for _, d := range []string{"simrt", "simnet", "mcpeer", "worlds"} {
		hashFiles(hh, filepath.Join(verifDir, d), goFilter)
	}
	b, _ := os.ReadFile(filepath.Join(verifDir, "go.mod"))
	hh.Write(b)
	binHash := hex.EncodeToString(hh.Sum(nil))[:16]
	suffix := ""
	if race {
		suffix = "-race"
	}
	bin := filepath.Join(work, "worlds-"+binHash+suffix+".test")
	if !exists(bin) {
		if ents, err := os.ReadDir(work); err == nil {
			for _, e := range ents {
				if strings.HasPrefix(e.Name(), "worlds-") && strings.HasSuffix(e.Name(), suffix+".test") && (race || !strings.HasSuffix(e.Name(), "-race.test")) {
					_ = os.Remove(filepath.Join(work, e.Name()))
				}
			}
		}
		args := []string{"test", "-c", "-vet=off", "-tags", "verif", "-overlay", overlay, "-o", bin + ".tmp"}
		if race {
			args = append(args, "-race")
		}
		args = append(args, "./worlds")
		out, err := run(verifDir, goEnv(), "go", args...)
		if err != nil {
			die2("building the simulation binary from /repo's working tree failed (not a violation): %v\n%s", err, out)
		}
		if err := os.Rename(bin+".tmp", bin); err != nil {
			die2("rename: %v", err)
		}
	}
	st, _ := os.ReadFile(filepath.Join(idir, "instr-stats.json"))
	return &build{bin: bin, overlay: overlay, treeHash: treeHash, instrStats: st}
}

func exists(p string) bool { _, err := os.Stat(p); return err == nil }

var raceLogSeq int

// exitClean removes this process's race-detector log files before exiting.
func exitClean(code int) {
	if m, _ := filepath.Glob(filepath.Join(os.TempDir(), fmt.Sprintf("vrace-%d-*", os.Getpid()))); len(m) > 0 {
		for _, f := range m {
			_ = os.Remove(f)
		}
	}
	os.Exit(code)
}

func simEnv(extra ...string) []string {
	env := append(os.Environ(), "GODEBUG=asyncpreemptoff=1")
	has := false
	for _, e := range extra {
		if strings.HasPrefix(e, "GORACE=") {
			has = true
		}
	}
	if !has {
		// race builds: every process logs detector reports to its own file, which the
		// process itself reads back after each run (worlds.runOne) to attribute them
		raceLogSeq++
		env = append(env, fmt.Sprintf("GORACE=halt_on_error=0 exitcode=0 suppress_equal_stacks=0 suppress_equal_addresses=0 log_path=%s", filepath.Join(os.TempDir(), fmt.Sprintf("vrace-%d-%d", os.Getpid(), raceLogSeq))))
	}
	return append(env, extra...)
}

func listScenarios(b *build) map[string]*ScenarioInfo {
	cmd := exec.Command(b.bin, "-test.run", "^TestSim$", "-test.v")
	cmd.Env = simEnv("VSIM_MODE=list")
	out, err := cmd.CombinedOutput()
	if err != nil {
		die2("listing scenarios failed: %v\n%s", err, out)
	}
	for _, l := range strings.Split(string(out), "\n") {
		if strings.HasPrefix(l, "SCENARIOS ") {
			var infos []*ScenarioInfo
			if err := json.Unmarshal([]byte(l[len("SCENARIOS "):]), &infos); err != nil {
				die2("bad scenario list: %v", err)
			}
			m := map[string]*ScenarioInfo{}
			for _, i := range infos {
				m[i.Prop] = i
			}
			return m
		}
	}
	die2("no scenario list in output:\n%s", out)
	return nil
}

// ---- serve pool (replay / shrink) ----

type server struct {
	cmd *exec.Cmd
	in  io.WriteCloser
	out *bufio.Scanner
	mu  sync.Mutex
}

func startServer(b *build, trace bool) *server {
	cmd := exec.Command(b.bin, "-test.run", "^TestSim$", "-test.timeout", "0")
	env := simEnv("VSIM_MODE=serve")
	if trace {
		env = append(env, "VSIM_TRACE=1")
	}
	cmd.Env = env
	in, _ := cmd.StdinPipe()
	outp, _ := cmd.StdoutPipe()
	cmd.Stderr = os.Stderr
	if err := cmd.Start(); err != nil {
		die2("start server: %v", err)
	}
	sc := bufio.NewScanner(outp)
	sc.Buffer(make([]byte, 1<<20), 256<<20)
	return &server{cmd: cmd, in: in, out: sc}
}

func (s *server) eval(prop, tier string, seed uint64, index int, t *Tapes) (*Result, error) {
	s.mu.Lock()
	defer s.mu.Unlock()
	req, _ := json.Marshal(map[string]any{"prop": prop, "tier": tier, "seed": seed, "index": index, "tapes": t})
	if _, err := s.in.Write(append(req, '\n')); err != nil {
		return nil, err
	}
	// one evaluation gets a wall-clock limit: a candidate tape can drive the run into a
	// long (though bounded) simulation; the server is killed and the candidate discarded
	type res struct {
		r   *Result
		err error
	}
	ch := make(chan res, 1)
	go func() {
		for s.out.Scan() {
			l := s.out.Text()
			if strings.HasPrefix(l, "RESULT ") {
				var r Result
				if err := json.Unmarshal([]byte(l[7:]), &r); err != nil {
					ch <- res{nil, err}
					return
				}
				raceToViolation(&r)
				ch <- res{&r, nil}
				return
			}
		}
		ch <- res{nil, fmt.Errorf("server died")}
	}()
	select {
	case x := <-ch:
		return x.r, x.err
	case <-time.After(150 * time.Second):
		_ = s.cmd.Process.Kill()
		return nil, fmt.Errorf("evaluation exceeded 150 s of wall-clock time; server killed")
	}
}

func (s *server) stop() {
	_ = s.in.Close()
	done := make(chan struct{})
	go func() { _ = s.cmd.Wait(); close(done) }()
	select {
	case <-done:
	case <-time.After(5 * time.Second):
		_ = s.cmd.Process.Kill()
	}
}

type pool struct {
	b       *build
	servers chan *server
	all     []*server
	prop    string
	tier    string
	evals   int
	mu      sync.Mutex
}

func newPool(b *build, n int, prop, tier string) *pool {
	p := &pool{b: b, servers: make(chan *server, n), prop: prop, tier: tier}
	for i := 0; i < n; i++ {
		s := startServer(b, false)
		p.all = append(p.all, s)
		p.servers <- s
	}
	return p
}

func (p *pool) eval(seed uint64, index int, t *Tapes) *Result {
	s := <-p.servers
	r, err := s.eval(p.prop, p.tier, seed, index, t)
	if err != nil {
		// server died (crash in candidate); replace it
		s.stop()
		ns := startServer(p.b, false)
		p.mu.Lock()
		p.all = append(p.all, ns)
		p.mu.Unlock()
		p.servers <- ns
		return &Result{Harness: "server died: " + err.Error()}
	}
	if strings.HasSuffix(p.b.bin, "-race.test") {
		// the detector reports a given race once per process: evaluate every candidate in
		// a fresh one so that replays see it again
		s.stop()
		s = startServer(p.b, false)
		p.mu.Lock()
		p.all = append(p.all, s)
		p.mu.Unlock()
	}
	p.servers <- s
	p.mu.Lock()
	p.evals++
	p.mu.Unlock()
	return r
}

func (p *pool) stop() {
	for _, s := range p.all {
		s.stop()
	}
}

func cloneTapes(t *Tapes) *Tapes {
	return &Tapes{W: append([]uint32(nil), t.W...), S: append([]uint32(nil), t.S...), F: append([]uint32(nil), t.F...), A: append([]uint32(nil), t.A...)}
}

func tapeRef(t *Tapes, i int) *[]uint32 {
	switch i {
	case 0:
		return &t.W
	case 1:
		return &t.F
	case 2:
		return &t.S
	}
	return &t.A
}

func trimZeros(v []uint32) []uint32 {
	for len(v) > 0 && v[len(v)-1] == 0 {
		v = v[:len(v)-1]
	}
	return v
}

func tapeSize(t *Tapes) int {
	n := 0
	for i := 0; i < 4; i++ {
		for _, v := range *tapeRef(t, i) {
			if v != 0 {
				n += 2
			}
			n++
		}
	}
	return n
}

// shrink minimises the tapes while the same violation class persists.
func shrink(p *pool, seed uint64, index int, t *Tapes, class, sig string, budget time.Duration) (*Tapes, int) {
	deadline := time.Now().Add(budget)
	same := func(r *Result) bool { return r != nil && r.Viol != nil && r.Viol.Class == class && r.Viol.Sig == sig }
	cur := cloneTapes(t)
	for i := 0; i < 4; i++ {
		*tapeRef(cur, i) = trimZeros(*tapeRef(cur, i))
	}
	// try a batch of candidates in parallel; return first (in order) that still fails
	tryBatch := func(cands []*Tapes) *Tapes {
		if len(cands) == 0 {
			return nil
		}
		res := make([]*Result, len(cands))
		var wg sync.WaitGroup
		for i := range cands {
			wg.Add(1)
			go func(i int) { defer wg.Done(); res[i] = p.eval(seed, index, cands[i]) }(i)
		}
		wg.Wait()
		for i := range cands {
			if same(res[i]) {
				return cands[i]
			}
		}
		return nil
	}
	improved := true
	for improved && time.Now().Before(deadline) {
		improved = false
		// whole-tape zeroing
		for ti := 1; ti < 4; ti++ {
			if len(*tapeRef(cur, ti)) == 0 {
				continue
			}
			c := cloneTapes(cur)
			*tapeRef(c, ti) = nil
			if got := tryBatch([]*Tapes{c}); got != nil {
				cur, improved = got, true
			}
		}
		for ti := 0; ti < 4 && time.Now().Before(deadline); ti++ {
			// block deletion and block zeroing, coarse to fine
			for size := len(*tapeRef(cur, ti)); size >= 1 && time.Now().Before(deadline); size /= 2 {
				for again := true; again && time.Now().Before(deadline); {
					again = false
					v := *tapeRef(cur, ti)
					var cands []*Tapes
					for off := 0; off+size <= len(v) && len(cands) < 64; off += size {
						// truncate-at (for schedule tapes: drop the tail)
						c := cloneTapes(cur)
						nv := append(append([]uint32(nil), v[:off]...), v[off+size:]...)
						*tapeRef(c, ti) = trimZeros(nv)
						cands = append(cands, c)
						allZero := true
						for _, x := range v[off : off+size] {
							if x != 0 {
								allZero = false
							}
						}
						if !allZero {
							c2 := cloneTapes(cur)
							z := *tapeRef(c2, ti)
							for k := off; k < off+size; k++ {
								z[k] = 0
							}
							*tapeRef(c2, ti) = trimZeros(z)
							cands = append(cands, c2)
						}
					}
					if got := tryBatch(cands); got != nil && tapeSize(got) < tapeSize(cur) {
						cur, improved, again = got, true, true
					}
				}
				if size == 1 {
					break
				}
			}
			// value minimisation
			v := *tapeRef(cur, ti)
			var cands []*Tapes
			for k := range v {
				if v[k] > 1 {
					c := cloneTapes(cur)
					(*tapeRef(c, ti))[k] = 1
					cands = append(cands, c)
				}
				if len(cands) >= 48 {
					break
				}
			}
			if got := tryBatch(cands); got != nil {
				cur, improved = got, true
			}
		}
	}
	return cur, p.evals
}

func loadFindings() []Finding {
	b, err := os.ReadFile(filepath.Join(verifDir, "known-findings.json"))
	if err != nil {
		return nil
	}
	var f struct {
		Findings []Finding `json:"findings"`
	}
	if err := json.Unmarshal(b, &f); err != nil {
		die2("known-findings.json: %v", err)
	}
	return f.Findings
}

func matchFinding(fs []Finding, prop string, v *Violation) *Finding {
	for i := range fs {
		f := &fs[i]
		if f.Property != prop || f.Status != "open" || f.Class != v.Class {
			continue
		}
		if f.Sig == "" {
			return f
		}
		if ok, _ := regexp.MatchString(f.Sig, v.Sig); ok {
			return f
		}
	}
	return nil
}

func main() {
	tier := flag.String("tier", os.Getenv("VERIF_TIER"), "quick|thorough")
	replay := flag.String("replay", "", "replay file")
	runsFlag := flag.Int("runs", 0, "override number of runs")
	procs := flag.Int("procs", 0, "worker processes (default: cores)")
	budget := flag.Int("budget", 0, "wall-clock budget for the search in seconds")
	keepGoing := flag.Bool("keep-going", false, "do not stop at the first violation (diagnostics)")
	buildOnly := flag.Bool("build-only", false, "build and exit")
	detTest := flag.Bool("selftest-determinism", false, "run the determinism self-test for the property")
	flag.Usage = func() {
		fmt.Fprintln(os.Stderr, "usage: vcheck [flags] <PROPERTY-ID>")
		flag.PrintDefaults()
	}
	// allow flags after the positional
	var pos []string
	args := os.Args[1:]
	var fl []string
	for i := 0; i < len(args); i++ {
		a := args[i]
		if strings.HasPrefix(a, "-") {
			fl = append(fl, a)
			if !strings.Contains(a, "=") && i+1 < len(args) && !strings.HasPrefix(args[i+1], "-") && a != "--keep-going" && a != "-keep-going" && a != "--build-only" && a != "-build-only" && a != "--selftest-determinism" && a != "-selftest-determinism" {
				fl = append(fl, args[i+1])
				i++
			}
		} else {
			pos = append(pos, a)
		}
	}
	_ = flag.CommandLine.Parse(fl)
	if *tier == "" {
		*tier = "quick"
	}
	if *procs <= 0 {
		*procs = runtime.NumCPU()
		if *procs > 16 {
			*procs = 16
		}
	}
	if *buildOnly {
		b := ensureBuilt(false)
		fmt.Println("built", b.bin)
		if len(pos) > 0 && pos[0] == "race" {
			b = ensureBuilt(true)
			fmt.Println("built", b.bin)
		}
		return
	}
	if len(pos) != 1 {
		flag.Usage()
		exitClean(2)
	}
	prop := pos[0]
	seed := uint64(20260921)
	if v := os.Getenv("VERIF_SEED"); v != "" {
		if n, err := strconv.ParseUint(v, 10, 64); err == nil {
			seed = n
		} else if n, err := strconv.ParseInt(v, 10, 64); err == nil {
			seed = uint64(n)
		}
	}
	startT := time.Now()

	if *replay != "" {
		exitClean(doReplay(prop, *replay))
	}

	b := ensureBuilt(false)
	infos := listScenarios(b)
	info := infos[prop]
	if info == nil {
		die2("no scenario for property %s", prop)
	}
	if info.Race {
		b = ensureBuilt(true)
	}
	if *detTest {
		exitClean(determinismSelfTest(b, prop, *tier, seed))
	}
	n := info.Quick
	if *tier == "thorough" {
		n = info.Thorough
	}
	if *runsFlag > 0 {
		n = *runsFlag
	}
	bud := 120
	if *tier == "thorough" {
		bud = 1500
	}
	if *budget > 0 {
		bud = *budget
	}

	results, crashes, harnessErrs := fanOut(b, prop, *tier, seed, n, *procs, bud, *keepGoing, info, 0)
	if info.Race && len(harnessErrs) == 0 {
		// the scenario's logical oracles do not need the detector: a second batch on the plain
		// build (about ten times faster) explores many more interleavings with the same seed
		// (run indices continue after the race batch)
		plain := ensureBuilt(false)
		r2, c2, h2 := fanOut(plain, prop, *tier, seed, n*10, *procs, bud, *keepGoing, info, n)
		results, crashes, harnessErrs = append(results, r2...), append(crashes, c2...), append(harnessErrs, h2...)
	}
	wall := time.Since(startT).Seconds()

	// harness trouble first: never report a violation from a broken harness
	if len(harnessErrs) > 0 {
		fmt.Fprintf(os.Stderr, "vcheck: %d run(s) ended with a harness error; first:\n%s\n", len(harnessErrs), harnessErrs[0])
		writeEvidence(prop, *tier, seed, info, b, results, wall, 0, nil)
		exitClean(2)
	}

	findings := loadFindings()
	var viols []*Result
	for _, r := range results {
		if r.Viol != nil {
			viols = append(viols, r)
		}
	}
	for _, c := range crashes {
		viols = append(viols, c)
	}
	sort.Slice(viols, func(i, j int) bool { return viols[i].Index < viols[j].Index })

	exit := 0
	known := map[string]bool{}
	var reported []string
	unknownViolations := 0
	if len(viols) > 0 {
		pools := map[*build]*pool{}
		poolOf := func(bb *build) *pool {
			if pools[bb] == nil {
				pools[bb] = newPool(bb, min(*procs, 16), prop, *tier)
			}
			return pools[bb]
		}
		defer func() {
			for _, pp := range pools {
				pp.stop()
			}
		}()
		seenClass := map[string]bool{}
		postDeadline := time.Now().Add(5 * time.Minute)
		for _, v := range viols {
			key := v.Viol.Class + "|" + v.Viol.Sig
			if seenClass[key] {
				continue
			}
			seenClass[key] = true
			// race scenarios: only detector reports need the (slow) race build to replay
			p := poolOf(b)
			if info.Race && v.Viol.Class != "data-race" {
				p = poolOf(ensureBuilt(false))
			}
			if f := matchFinding(findings, prop, v.Viol); f != nil {
				if !known[f.What] {
					known[f.What] = true
					fmt.Printf("KNOWN-FINDING: property=%s %s [class=%s sig=%s]\n", prop, f.What, v.Viol.Class, v.Viol.Sig)
				}
				continue
			}
			if v.Tapes == nil {
				// process crash: no tapes; report with seed/index as replay
				path := writeReplay(prop, *tier, seed, v, nil, b, 0)
				fmt.Printf("VIOLATION property=%s replay=%s\n", prop, path)
				fmt.Printf("  class=%s detail=%s\n", v.Viol.Class, firstLine(v.Viol.Detail))
				unknownViolations++
				exit = 1
				continue
			}
			if time.Now().After(postDeadline) {
				// enough time spent on confirming and minimising: report the rest as found
				path := writeReplay(prop, *tier, seed, v, v.Tapes, b, 0)
				fmt.Printf("VIOLATION property=%s replay=%s\n  class=%s sig=%s (not minimised: post-processing budget used up)\n  %s\n", prop, path, v.Viol.Class, v.Viol.Sig, firstLine(v.Viol.Detail))
				unknownViolations++
				exit = 1
				continue
			}
			// confirm it replays (twice) before believing it
			r1 := p.eval(seed, v.Index, v.Tapes)
			r2 := p.eval(seed, v.Index, v.Tapes)
			if r1.Viol == nil || r2.Viol == nil || r1.Viol.Class != v.Viol.Class || r2.Viol.Class != v.Viol.Class || r1.Hash != r2.Hash {
				fmt.Fprintf(os.Stderr, "vcheck: violation %s at index %d does not replay identically (harness nondeterminism): %+v / %+v\n", v.Viol.Class, v.Index, r1.Viol, r2.Viol)
				exit = 2
				continue
			}
			sb := 45 * time.Second
			if *tier == "thorough" {
				sb = 180 * time.Second
			}
			minT, evals := shrink(p, seed, v.Index, v.Tapes, v.Viol.Class, v.Viol.Sig, sb)
			final := p.eval(seed, v.Index, minT)
			if final.Viol == nil || final.Viol.Class != v.Viol.Class {
				minT = v.Tapes
				final = r1
			}
			if f := matchFinding(findings, prop, final.Viol); f != nil {
				if !known[f.What] {
					known[f.What] = true
					fmt.Printf("KNOWN-FINDING: property=%s %s [class=%s sig=%s]\n", prop, f.What, final.Viol.Class, final.Viol.Sig)
				}
				continue
			}
			final.Index = v.Index
			path := writeReplay(prop, *tier, seed, final, minT, b, evals)
			fmt.Printf("VIOLATION property=%s replay=%s\n", prop, path)
			fmt.Printf("  class=%s sig=%s\n  %s\n  minimised tapes: w=%d s=%d f=%d a=%d entries (%d shrink evaluations)\n", final.Viol.Class, final.Viol.Sig, firstLine(final.Viol.Detail), len(minT.W), len(minT.S), len(minT.F), len(minT.A), evals)
			reported = append(reported, path)
			unknownViolations++
			if exit == 0 {
				exit = 1
			}
		}
	}
	writeEvidence(prop, *tier, seed, info, b, results, time.Since(startT).Seconds(), unknownViolations, known)
	if exit == 0 {
		fmt.Printf("OK property=%s tier=%s runs=%d wall=%.1fs\n", prop, *tier, len(results), time.Since(startT).Seconds())
	}
	exitClean(exit)
}

func firstLine(s string) string {
	if i := strings.IndexByte(s, '\n'); i >= 0 {
		return s[:i]
	}
	return s
}

func fanOut(b *build, prop, tier string, seed uint64, n, procs, budgetS int, keepGoing bool, info *ScenarioInfo, from int) (results []*Result, crashes []*Result, harnessErrs []string) {
	if procs > n {
		procs = n
	}
	tmp, err := os.MkdirTemp("", "vcheck-"+prop+"-")
	if err != nil {
		die2("tmp: %v", err)
	}
	defer os.RemoveAll(tmp)
	type wres struct {
		k      int
		err    error
		stderr string
	}
	ch := make(chan wres, procs)
	for k := 0; k < procs; k++ {
		go func(k int) {
			out := filepath.Join(tmp, fmt.Sprintf("w%d.jsonl", k))
			cmd := exec.Command(b.bin, "-test.run", "^TestSim$", "-test.timeout", "0", "-test.cpu", "1")
			env := simEnv("VSIM_MODE=batch", "VSIM_PROP="+prop, "VSIM_TIER="+tier, "VSIM_SEED="+strconv.FormatUint(seed, 10),
				"VSIM_FROM="+strconv.Itoa(from+k), "VSIM_TO="+strconv.Itoa(from+n), "VSIM_STRIDE="+strconv.Itoa(procs), "VSIM_OUT="+out,
				"VSIM_BUDGET_S="+strconv.Itoa(budgetS), "GORACE=halt_on_error=0 exitcode=0 log_path="+filepath.Join(tmp, fmt.Sprintf("race%d", k)))
			if keepGoing {
				env = append(env, "VSIM_KEEP_GOING=1")
			}
			cmd.Env = env
			var stderr bytes.Buffer
			cmd.Stderr = &stderr
			cmd.Stdout = &stderr
			done := make(chan error, 1)
			if err := cmd.Start(); err != nil {
				ch <- wres{k, err, ""}
				return
			}
			go func() { done <- cmd.Wait() }()
			select {
			case err := <-done:
				ch <- wres{k, err, tail(stderr.String(), 400000)}
			case <-time.After(time.Duration(budgetS+240) * time.Second):
				_ = cmd.Process.Kill()
				ch <- wres{k, fmt.Errorf("worker exceeded wall-clock limit"), tail(stderr.String(), 400000)}
			}
		}(k)
	}
	werrs := map[int]wres{}
	attributedRaces := false
	for k := 0; k < procs; k++ {
		w := <-ch
		if w.err != nil {
			werrs[w.k] = w
		}
	}
	for k := 0; k < procs; k++ {
		f, err := os.Open(filepath.Join(tmp, fmt.Sprintf("w%d.jsonl", k)))
		if err != nil {
			if w, bad := werrs[k]; bad {
				harnessErrs = append(harnessErrs, fmt.Sprintf("worker %d failed before producing output: %v\n%s", k, w.err, tail(w.stderr, 6000)))
			}
			continue
		}
		sc := bufio.NewScanner(f)
		sc.Buffer(make([]byte, 1<<20), 256<<20)
		lastStart := -1
		finished := map[int]bool{}
		for sc.Scan() {
			var r Result
			if err := json.Unmarshal(sc.Bytes(), &r); err != nil {
				continue
			}
			if r.Start != nil {
				lastStart = *r.Start
				continue
			}
			finished[r.Index] = true
			if r.Harness != "" {
				harnessErrs = append(harnessErrs, fmt.Sprintf("run index %d: %s", r.Index, r.Harness))
			}
			rr := r
			if rr.Race != "" {
				attributedRaces = true
				raceToViolation(&rr)
			}
			results = append(results, &rr)
		}
		f.Close()
		if w, bad := werrs[k]; bad && info.Race && (lastStart < 0 || finished[lastStart]) && strings.Contains(w.stderr, "race detected during execution of test") {
			// race build: the testing package exits 1 after a detector report; the reports are read below
		} else if bad {
			if lastStart >= 0 && !finished[lastStart] {
				// the process died inside run lastStart
				if info.Crash && gatePanic(w.stderr) {
					crashes = append(crashes, &Result{Prop: prop, Index: lastStart, Seed: seed,
						Viol: &Violation{Class: "process-crash", Sig: crashSig(w.stderr), Detail: w.stderr}})
				} else if site := watchdogGateSite(w.stderr); info.Crash && site != "" {
					// the run made no progress for the watchdog period while executing gate code
					// (not parked in the simulator): an endless loop or a runaway allocation
					crashes = append(crashes, &Result{Prop: prop, Index: lastStart, Seed: seed,
						Viol: &Violation{Class: "no-progress-in-gate-code", Sig: site, Detail: tail(w.stderr, 3000)}})
				} else {
					_ = os.WriteFile(filepath.Join(verifDir, ".work", "last-worker-stderr.txt"), []byte(w.stderr), 0o644)
					harnessErrs = append(harnessErrs, fmt.Sprintf("worker %d died in run index %d: %v\n%s", k, lastStart, w.err, tail(w.stderr, 6000)))
				}
			} else {
				harnessErrs = append(harnessErrs, fmt.Sprintf("worker %d failed: %v\n%s", k, w.err, tail(w.stderr, 6000)))
			}
		}
		// race reports
		if matches, _ := filepath.Glob(filepath.Join(tmp, fmt.Sprintf("race%d.*", k))); len(matches) > 0 && !attributedRaces {
			for _, m := range matches {
				rb, _ := os.ReadFile(m)
				for _, rep := range parseRaceReports(string(rb)) {
					inScope := len(info.RaceScope) == 0
					for _, sub := range info.RaceScope {
						if strings.Contains(rep.text, sub) {
							inScope = true
						}
					}
					if rep.gateOnly && inScope {
						crashes = append(crashes, &Result{Prop: prop, Index: -1, Seed: seed,
							Viol: &Violation{Class: "data-race", Sig: rep.sig, Detail: rep.text}})
					}
				}
			}
		}
	}
	sort.Slice(results, func(i, j int) bool { return results[i].Index < results[j].Index })
	return
}

func tail(s string, n int) string {
	if len(s) > n {
		return s[len(s)-n:]
	}
	return s
}

var frameRe = regexp.MustCompile(`(?m)^(go\.minekube\.com/gate/[^\s(]+)`)

// gatePanic: the panicking goroutine's first non-runtime frame is Gate code (not the harness).
func gatePanic(stderr string) bool {
	i := strings.Index(stderr, "panic:")
	if i < 0 {
		i = strings.Index(stderr, "fatal error:")
	}
	if i < 0 {
		return false
	}
	rest := stderr[i:]
	j := strings.Index(rest, "goroutine ")
	if j < 0 {
		return false
	}
	rest = rest[j:]
	if k := strings.Index(rest, "\n\n"); k >= 0 {
		rest = rest[:k]
	}
	// The panic counts as gate's if it passed through gate code on its way out: either it
	// was raised there, or a callback gate invoked (a session handler, an event subscriber)
	// panicked and gate did not contain it.
	for _, m := range frameRe.FindAllString(rest, -1) {
		if !strings.Contains(m, "/zzverif/") {
			return true
		}
	}
	return false
}

// watchdogGateSite returns the innermost gate frame of a running (not parked) goroutine in a
// watchdog dump, or "" if the dump shows none.
func watchdogGateSite(stderr string) string {
	i := strings.Index(stderr, "VSIM-WATCHDOG")
	if i < 0 {
		return ""
	}
	for _, g := range strings.Split(stderr[i:], "\n\n") {
		head := firstLine(g)
		if !strings.HasPrefix(head, "goroutine ") || !(strings.Contains(head, "[runnable") || strings.Contains(head, "[running")) {
			continue
		}
		for _, m := range frameRe.FindAllString(g, -1) {
			if !strings.Contains(m, "/zzverif/") {
				return strings.TrimPrefix(m, "go.minekube.com/gate/")
			}
		}
	}
	return ""
}

func crashSig(stderr string) string {
	i := strings.Index(stderr, "panic:")
	if i < 0 {
		i = strings.Index(stderr, "fatal error:")
	}
	if i < 0 {
		return "crash"
	}
	msg := firstLine(stderr[i:])
	rest := stderr[i:]
	for _, m := range frameRe.FindAllString(rest, -1) {
		if !strings.Contains(m, "/zzverif/") {
			return msg + " @ " + strings.TrimPrefix(m, "go.minekube.com/gate/")
		}
	}
	return msg
}

type raceReport struct {
	text     string
	sig      string
	gateOnly bool
}

// raceToViolation turns the race-detector output a run produced into that run's violation
// (first report whose two access stacks are in gate code).
func raceToViolation(r *Result) {
	if r.Race == "" || r.Viol != nil {
		return
	}
	for _, rep := range parseRaceReports(r.Race) {
		if rep.gateOnly {
			r.Viol = &Violation{Class: "data-race", Sig: rep.sig, Detail: rep.text}
			return
		}
	}
}

func parseRaceReports(s string) []raceReport {
	var out []raceReport
	parts := strings.Split(s, "==================")
	for _, p := range parts {
		if !strings.Contains(p, "WARNING: DATA RACE") {
			continue
		}
		// split into the two access stacks (first two blocks)
		blocks := strings.Split(strings.TrimSpace(p), "\n\n")
		var tops []string
		ok := true
		for bi, blk := range blocks {
			if bi >= 2 {
				break
			}
			top := ""
			for _, l := range strings.Split(blk, "\n") {
				l = strings.TrimSpace(l)
				if strings.HasPrefix(l, "go.minekube.com/gate/") || strings.HasPrefix(l, "runtime.") || strings.Contains(l, "(") && !strings.HasPrefix(l, "/") && !strings.HasPrefix(l, "WARNING") && !strings.HasPrefix(l, "Read") && !strings.HasPrefix(l, "Write") && !strings.HasPrefix(l, "Previous") {
					if strings.HasPrefix(l, "runtime.") || strings.HasPrefix(l, "sync.") || strings.HasPrefix(l, "sync/atomic.") || strings.HasPrefix(l, "internal/") ||
						strings.HasPrefix(l, "reflect.") || strings.HasPrefix(l, "go.minekube.com/gate/pkg/zzverif/simrt.") {
						continue
					}
					top = l
					break
				}
			}
			if top == "" || !strings.HasPrefix(top, "go.minekube.com/gate/") || strings.Contains(top, "/zzverif/") {
				ok = false
			}
			top = strings.TrimSuffix(top, "()")
			if i := strings.LastIndexByte(top, '/'); i > 0 {
				top = top[i+1:]
			}
			tops = append(tops, top)
		}
		if len(tops) < 2 {
			ok = false
		}
		sort.Strings(tops)
		out = append(out, raceReport{text: strings.TrimSpace(p), sig: strings.Join(tops, " <-> "), gateOnly: ok})
	}
	return out
}

type replayFile struct {
	Property    string         `json:"property"`
	Tier        string         `json:"tier"`
	Seed        uint64         `json:"seed"`
	Index       int            `json:"index"`
	Tree        string         `json:"repo_tree_hash"`
	Expect      *Violation     `json:"expect"`
	Tapes       *Tapes         `json:"tapes,omitempty"`
	Trace       []string       `json:"trace,omitempty"`
	Sample      any            `json:"sample,omitempty"`
	OpKinds     string         `json:"ops,omitempty"`
	Faults      map[string]int `json:"faults_fired,omitempty"`
	ShrinkEvals int            `json:"shrink_evaluations"`
	How         string         `json:"how_to_replay"`
}

func writeReplay(prop, tier string, seed uint64, r *Result, t *Tapes, b *build, evals int) string {
	dir := filepath.Join(verifDir, "replays")
	_ = os.MkdirAll(dir, 0o755)
	cls := regexp.MustCompile(`[^a-zA-Z0-9]+`).ReplaceAllString(r.Viol.Class, "-")
	path := filepath.Join(dir, fmt.Sprintf("%s-%s-%d-%d.json", prop, cls, seed, r.Index))
	rf := replayFile{Property: prop, Tier: tier, Seed: seed, Index: r.Index, Tree: b.treeHash, Expect: r.Viol, Tapes: t, Trace: r.Trace,
		Sample: r.Sample, OpKinds: r.OpKinds, Faults: r.Faults, ShrinkEvals: evals, How: "/verif/vcheck " + prop + " --replay " + path}
	bb, _ := json.MarshalIndent(rf, "", " ")
	_ = os.WriteFile(path, bb, 0o644)
	return path
}

func doReplay(prop, path string) int {
	bb, err := os.ReadFile(path)
	if err != nil {
		die2("replay: %v", err)
	}
	var rf replayFile
	if err := json.Unmarshal(bb, &rf); err != nil {
		die2("replay: %v", err)
	}
	b := ensureBuilt(false)
	infos := listScenarios(b)
	if info := infos[prop]; info != nil && info.Race {
		b = ensureBuilt(true)
	}
	s := startServer(b, true)
	defer s.stop()
	r, err := s.eval(prop, rf.Tier, rf.Seed, rf.Index, rf.Tapes)
	if err != nil {
		if rf.Tapes == nil {
			fmt.Printf("VIOLATION property=%s replay=%s\n  (process crash reproduced)\n", prop, path)
			return 1
		}
		die2("replay failed: %v", err)
	}
	for _, l := range r.Trace {
		fmt.Println("  " + l)
	}
	if r.Viol != nil {
		fmt.Printf("VIOLATION property=%s replay=%s\n  class=%s sig=%s\n  %s\n", prop, path, r.Viol.Class, r.Viol.Sig, r.Viol.Detail)
		if rf.Expect != nil && rf.Expect.Class != r.Viol.Class {
			fmt.Printf("  (note: expected class %s)\n", rf.Expect.Class)
		}
		return 1
	}
	if r.Harness != "" {
		die2("replay: harness error: %s", r.Harness)
	}
	fmt.Printf("replay of %s: no violation on this tree (hash %s)\n", path, r.Hash)
	return 0
}

func determinismSelfTest(b *build, prop, tier string, seed uint64) int {
	// run N indices in 3 fresh processes with different GOMAXPROCS and compare hashes
	n := 32
	type key struct{ idx int }
	var all []map[int]string
	for _, cpu := range []string{"1", "4", "16"} {
		tmp, _ := os.CreateTemp("", "vdet-*.jsonl")
		tmp.Close()
		cmd := exec.Command(b.bin, "-test.run", "^TestSim$", "-test.timeout", "0", "-test.cpu", cpu)
		cmd.Env = simEnv("VSIM_MODE=batch", "VSIM_PROP="+prop, "VSIM_TIER="+tier, "VSIM_SEED="+strconv.FormatUint(seed, 10),
			"VSIM_FROM=0", "VSIM_TO="+strconv.Itoa(n), "VSIM_OUT="+tmp.Name(), "VSIM_KEEP_GOING=1")
		out, err := cmd.CombinedOutput()
		if err != nil && strings.HasSuffix(b.bin, "-race.test") && strings.Contains(string(out), "race detected during execution of test") {
			err = nil // race build: the testing package exits 1 after any detector report (the harness's own included)
		}
		if err != nil {
			fmt.Fprintf(os.Stderr, "selftest worker failed: %v\n%s\n", err, tail(string(out), 3000))
			os.Remove(tmp.Name())
			return 2
		}
		m := map[int]string{}
		f, _ := os.Open(tmp.Name())
		sc := bufio.NewScanner(f)
		sc.Buffer(make([]byte, 1<<20), 256<<20)
		for sc.Scan() {
			var r Result
			if json.Unmarshal(sc.Bytes(), &r) == nil && r.Start == nil {
				v := ""
				if r.Viol != nil {
					v = r.Viol.Class
				}
				m[r.Index] = fmt.Sprintf("%s steps=%d viol=%s adopted=%d", r.Hash, r.Steps, v, r.Adopted)
			}
		}
		f.Close()
		os.Remove(tmp.Name())
		all = append(all, m)
	}
	bad := 0
	for i := 0; i < n; i++ {
		if all[0][i] != all[1][i] || all[0][i] != all[2][i] {
			bad++
			fmt.Printf("NONDETERMINISM %s index %d: cpu1=%s cpu4=%s cpu16=%s\n", prop, i, all[0][i], all[1][i], all[2][i])
		}
	}
	if bad > 0 {
		return 2
	}
	fmt.Printf("determinism OK property=%s: %d runs x 3 processes (GOMAXPROCS 1/4/16) identical\n", prop, n)
	return 0
}

func writeEvidence(prop, tier string, seed uint64, info *ScenarioInfo, b *build, results []*Result, wall float64, violations int, known map[string]bool) {
	dir := filepath.Join(verifDir, "evidence")
	_ = os.MkdirAll(dir, 0o755)
	distinct := map[string]bool{}
	states := map[string]bool{}
	interleavings := map[string]bool{}
	faults := map[string]int{}
	probes := map[string]int{}
	variants := map[string]int{}
	strategies := map[string]int{}
	var steps, picks, nondflt, ops int
	var simMs int64
	leaked, adopted, inconcl := 0, 0, 0
	var samples []any
	for _, r := range results {
		steps += r.Steps
		picks += r.Picks
		nondflt += r.NonDflt
		ops += r.Ops
		simMs += r.SimMs
		leaked += r.Leaked
		if r.Inconcl != "" {
			inconcl++
		}
		adopted += r.Adopted
		interleavings[r.Hash] = true
		for k, v := range r.Faults {
			faults[k] += v
		}
		for k, v := range r.Probes {
			probes[k] += v
		}
		for _, s := range r.States {
			states[s] = true
		}
		if r.Variant != "" {
			variants[r.Variant]++
		}
		strategies[[]string{"random", "sticky", "pct", "fifo"}[r.Strategy%4]]++
		if r.NonTrivial {
			fk := make([]string, 0, len(r.Faults))
			for k := range r.Faults {
				fk = append(fk, k)
			}
			sort.Strings(fk)
			distinct[r.Hash+"|"+r.OpKinds+"|"+strings.Join(fk, ",")] = true
		}
		if len(samples) < 3 && r.NonTrivial {
			samples = append(samples, map[string]any{"index": r.Index, "ops": r.OpKinds, "steps": r.Steps, "faults_fired": r.Faults, "schedule_hash": r.Hash, "detail": r.Sample, "variant": r.Variant})
		}
	}
	if len(samples) == 0 {
		for _, r := range results {
			if len(samples) < 2 {
				samples = append(samples, map[string]any{"index": r.Index, "ops": r.OpKinds, "steps": r.Steps, "detail": r.Sample})
			}
		}
	}
	var kn []string
	for k := range known {
		kn = append(kn, k)
	}
	sort.Strings(kn)
	rule := info.Rule
	if rule == "" {
		rule = "one case = one simulated run (workload, schedule, fault and aux tapes derived from VERIF_SEED and the run index); non-trivial = executed at least one workload operation of the property AND took at least one non-default scheduling decision or had at least one fault fire; distinct = distinct (schedule-trace hash, operation-kind sequence, set of fault kinds fired)"
	}
	perHour := 0.0
	if wall > 0 {
		perHour = float64(len(results)) / wall * 3600
	}
	ev := map[string]any{
		"property_id": prop,
		"tier":        tier,
		"seed":        int64(seed),
		"level":       "exploration",
		"wall_s":      wall,
		"violations":  violations,
		"coverage": map[string]any{
			"evaluations":                          len(results),
			"distinct_nontrivial":                  len(distinct),
			"rule":                                 rule,
			"samples":                              samples,
			"scheduler_steps":                      steps,
			"scheduling_decisions_with_choice":     picks,
			"non_default_decisions":                nondflt,
			"workload_operations":                  ops,
			"simulated_seconds":                    float64(simMs) / 1000,
			"runs_per_hour":                        perHour,
			"distinct_interleavings_by_trace_hash": len(interleavings),
			"distinct_abstract_states":             len(states),
			"faults_fired":                         faults,
			"reach_probes":                         probes,
			"variants":                             variants,
			"strategies":                           strategies,
			// a diagnostic, not a measure of work: what is still blocked when a bubble is torn
			// down depends on the real scheduler after the simulation has ended
			"post_run_teardown_note":             fmt.Sprintf("%d run(s) ended with goroutines still blocked at bubble teardown (after the simulated run; not replay-relevant)", leaked),
			"inconclusive_runs_budget_exhausted": inconcl,
			"adopted_goroutines":                 adopted,
			"real_code":                          info.Real,
			"models_and_stubs":                   info.Model,
			"known_findings_hit":                 kn,
			"repo_tree_hash":                     b.treeHash,
			"instrumentation":                    b.instrStats,
		},
		"assumptions": append([]string{
			"sampling, not enumeration: a clean batch is evidence, not proof",
			"instrumenter preserves semantics (validated by running the repository's own tests through the overlay in pass-through mode)",
			"Go runtime synctest fake clock and quiescence detection are correct",
		}, info.Assume...),
	}
	bb, _ := json.MarshalIndent(ev, "", " ")
	if err := os.WriteFile(filepath.Join(dir, prop+".json"), bb, 0o644); err != nil {
		die2("evidence: %v", err)
	}
}
