package worlds

import (
	"fmt"
	"time"

	"go.minekube.com/gate/pkg/internal/future"
	"go.minekube.com/gate/pkg/zzverif/simrt"
)

// C42 — futures complete once and run every callback exactly once.
//
// Workload: 2–5 simulated goroutines issue ThenAccept / Complete (competing, unique
// values) / ThenCompose on 1–3 shared futures and on a composed chain. Oracle (history
// with serialized sequence numbers): the value every callback sees is the value of one
// Complete call that was not preceded (return < invoke) by another Complete call; every
// registered callback ran exactly once iff the future was completed; chain elements
// complete in chain order.
func init() {
	Register(&Scenario{Prop: "C42", Desc: "future: single assignment, exactly-once callbacks, chain order", Run: runC42,
		Quick: 3000, Thorough: 400000,
		Real:  "pkg/internal/future (instrumented: every Lock/Unlock/function entry is a scheduling point)",
		Model: "caller goroutines are harness actors; oracle is a single-assignment register history check"})
}

type c42cb struct {
	fut    int
	calls  int
	val    int
	regSeq int
}

type c42complete struct {
	fut       int
	val       int
	inv, ret  int
}

func runC42(r *Run) {
	s := r.NewSim(20000)
	nF := 1 + r.W.Pick(3)
	nG := 2 + r.W.Pick(4)
	futs := make([]*future.Future[int], nF)
	for i := range futs {
		futs[i] = future.New[int]()
	}
	seq := 0
	var cbs []*c42cb
	var comps []*c42complete
	nextVal := 100
	done := 0

	// a composed chain hanging off futs[0]: c1 = compose(f0, x -> g1), c2 = compose(c1, x -> g2)
	chainLen := r.W.Pick(4) // 0..3
	inner := make([]*future.Future[int], chainLen)
	for i := range inner {
		inner[i] = future.New[int]()
	}
	chainDone := make([]int, chainLen) // seq at which chain element i completed (0 = not)
	chainVal := make([]int, chainLen)
	var chain []*future.Future[int]
	prev := futs[0]
	for i := 0; i < chainLen; i++ {
		i := i
		out := future.ThenCompose(prev, func(v int) *future.Future[int] { return inner[i] })
		out.ThenAccept(func(v int) {
			seq++
			if chainDone[i] != 0 {
				r.Fail("chain-callback-twice", "chain", "chain element %d completed twice", i)
			}
			chainDone[i] = seq
			chainVal[i] = v
		})
		chain = append(chain, out)
		prev = out
	}

	for g := 0; g < nG; g++ {
		g := g
		nOps := 1 + r.W.Pick(6)
		type op struct{ kind, fut, val int }
		ops := make([]op, nOps)
		for i := range ops {
			ops[i] = op{kind: []int{0, 1, 2, 0, 1, 3}[r.W.Pick(6)], fut: r.W.Pick(nF)}
			if ops[i].kind == 2 && chainLen == 0 {
				ops[i].kind = 0
			}
			if ops[i].kind == 2 {
				ops[i].fut = r.W.Pick(chainLen)
			}
			nextVal++
			ops[i].val = nextVal
		}
		s.GoNamed(fmt.Sprintf("g%d", g), func() {
			for _, o := range ops {
				switch o.kind {
				case 0: // ThenAccept
					r.Op("accept")
					cb := &c42cb{fut: o.fut}
					seq++
					cb.regSeq = seq
					cbs = append(cbs, cb)
					futs[o.fut].ThenAccept(func(v int) {
						seq++
						cb.calls++
						cb.val = v
					})
				case 1: // Complete
					r.Op("complete")
					c := &c42complete{fut: o.fut, val: o.val}
					seq++
					c.inv = seq
					comps = append(comps, c)
					futs[o.fut].Complete(o.val)
					seq++
					c.ret = seq
				case 3: // ThenCompose racing with Complete: the composing step is a callback like any other
					r.Op("compose")
					cb := &c42cb{fut: o.fut}
					seq++
					cb.regSeq = seq
					cbs = append(cbs, cb)
					outCalls := 0
					val := o.val
					out := future.ThenCompose(futs[o.fut], func(v int) *future.Future[int] {
						seq++
						cb.calls++
						cb.val = v
						return future.New[int]().Complete(val)
					})
					out.ThenAccept(func(v int) {
						outCalls++
						if outCalls > 1 || v != val {
							r.Fail("composed-result-wrong", "chain", "the composed future delivered %d (call %d), want %d once", v, outCalls, val)
						}
					})
				case 2: // complete an inner future of the chain
					r.Op("complete-inner")
					inner[o.fut].Complete(o.val)
				}
				simrt.Yield("c42.op")
			}
			done++
		})
	}
	why := s.RunUntil(5*time.Second, func() bool { return done == nG })
	if why != "done" {
		if ws := s.LockWaiters(); len(ws) > 0 {
			r.Fail("deadlock", "future-deadlock", "goroutines stuck: %+v", ws)
		} else {
			r.HarnessError("C42 run ended with %s, done=%d/%d parked=%+v", why, done, nG, s.Parked())
		}
		return
	}
	// Oracle.
	for f := 0; f < nF; f++ {
		var mine []*c42complete
		for _, c := range comps {
			if c.fut == f {
				mine = append(mine, c)
			}
		}
		winner := -1
		seen := false
		for _, cb := range cbs {
			if cb.fut != f {
				continue
			}
			if cb.calls > 1 {
				r.Fail("callback-twice", "future", "future %d: a callback ran %d times", f, cb.calls)
				return
			}
			if len(mine) > 0 && cb.calls != 1 {
				r.Fail("callback-lost", "future", "future %d was completed but a callback registered at seq %d ran %d times", f, cb.regSeq, cb.calls)
				return
			}
			if len(mine) == 0 && cb.calls != 0 {
				r.Fail("callback-spurious", "future", "future %d was never completed but a callback ran", f)
				return
			}
			if cb.calls == 1 {
				if seen && cb.val != winner {
					r.Fail("value-not-fixed", "future", "future %d: callbacks saw different values %d and %d", f, winner, cb.val)
					return
				}
				seen, winner = true, cb.val
			}
		}
		if seen {
			var wc *c42complete
			for _, c := range mine {
				if c.val == winner {
					wc = c
				}
			}
			if wc == nil {
				r.Fail("value-invented", "future", "future %d: callbacks saw %d which nobody completed with", f, winner)
				return
			}
			for _, c := range mine {
				if c != wc && c.ret < wc.inv {
					r.Fail("first-completion-lost", "future", "future %d: Complete(%d) returned (seq %d) before Complete(%d) was invoked (seq %d) yet the later value won", f, c.val, c.ret, wc.val, wc.inv)
					return
				}
			}
		}
	}
	// chain order: element i can only complete after element i-1, and only if futs[0] completed
	for i := 0; i < chainLen; i++ {
		if chainDone[i] != 0 {
			if i > 0 && (chainDone[i-1] == 0 || chainDone[i-1] > chainDone[i]) {
				r.Fail("chain-order", "chain", "chain element %d completed (seq %d) before element %d (seq %d)", i, chainDone[i], i-1, chainDone[i-1])
				return
			}
		}
	}
	r.State(fmt.Sprintf("F%d G%d chain%d comps%d cbs%d", nF, nG, chainLen, len(comps), len(cbs)))
	r.Res.Sample = map[string]any{"futures": nF, "goroutines": nG, "chain": chainLen, "completes": len(comps), "callbacks": len(cbs)}
	_ = chain
}
