// Package simrt (prototype): serialized scheduler on top of testing/synctest.
// Outside an active simulation every hook performs the real operation.
package simrt

import (
	"bytes"
	"context"
	"fmt"
	"hash/fnv"
	"math/rand"
	"net"
	"runtime"
	"sort"
	"strconv"
	"sync"
	"sync/atomic"
	"testing/synctest"
	"time"
)

type waitKind int

const (
	wRun waitKind = iota
	wLock
	wCond
	wOnce
)

type G struct {
	id     string
	wake   chan struct{}
	site   string
	wk     waitKind
	on     any // cond or once waited on
	nspawn int
	ext    bool
}

type onceState struct {
	running, done bool
}

type Sim struct {
	mu      sync.Mutex
	byGoid  map[uint64]*G
	parked  map[*G]bool
	onces   map[*sync.Once]*onceState
	rng     *rand.Rand
	Trace   *bytes.Buffer
	Steps   int
	nExt    int
	Adopted []string
	Stats   map[string]int
}

var (
	active atomic.Pointer[Sim]
	Calls  atomic.Int64
)

//go:norace
func goid() uint64 {
	var buf [64]byte
	n := runtime.Stack(buf[:], false)
	b := buf[len("goroutine "):n]
	i := bytes.IndexByte(b, ' ')
	v, _ := strconv.ParseUint(string(b[:i]), 10, 64)
	return v
}

// cur returns the sim goroutine for the caller, adopting unknown goroutines while a sim is active.
//go:norace
func cur(site string) (*Sim, *G) {
	runtime.RaceDisable()
	defer runtime.RaceEnable()
	s := active.Load()
	if s == nil {
		return nil, nil
	}
	id := goid()
	s.mu.Lock()
	g := s.byGoid[id]
	if g != nil && g.id == "r" {
		s.mu.Unlock()
		return nil, nil // the driver executes instrumented code as one atomic step
	}
	if g == nil {
		s.nExt++
		g = &G{id: fmt.Sprintf("ext:%s#%d", site, s.nExt), wake: make(chan struct{}), ext: true}
		s.byGoid[id] = g
		s.Adopted = append(s.Adopted, g.id)
	}
	s.mu.Unlock()
	return s, g
}

func caller() string {
	_, f, l, _ := runtime.Caller(2)
	for i := len(f) - 1; i >= 0; i-- {
		if f[i] == '/' {
			f = f[i+1:]
			break
		}
	}
	return f + ":" + strconv.Itoa(l)
}

//go:norace
func (s *Sim) park(g *G, site string, wk waitKind, on any) {
	runtime.RaceDisable()
	defer runtime.RaceEnable()
	g.site, g.wk, g.on = site, wk, on
	s.mu.Lock()
	if active.Load() != s {
		s.mu.Unlock()
		return
	}
	s.parked[g] = true
	s.mu.Unlock()
	<-g.wake
}

//go:norace
func Yield() {
	Calls.Add(1)
	site := caller()
	if s, g := cur(site); s != nil {
		s.park(g, site, wRun, nil)
	}
}

//go:norace
func Resumed() {
	site := caller()
	if s, g := cur(site); s != nil {
		s.park(g, site, wRun, nil)
	}
}

//go:norace
func Lock(try func() bool, lock func()) {
	site := caller()
	s, g := cur(site)
	if s == nil {
		lock()
		return
	}
	s.park(g, site, wRun, nil)
	for !try() {
		s.park(g, site, wLock, nil)
	}
}

//go:norace
func (s *Sim) wakeLockWaiters() {
	runtime.RaceDisable()
	defer runtime.RaceEnable()
	s.mu.Lock()
	for g := range s.parked {
		if g.wk == wLock {
			g.wk = wRun
		}
	}
	s.mu.Unlock()
}

func Unlock(unlock func()) {
	unlock()
	if s := active.Load(); s != nil {
		s.wakeLockWaiters()
	}
}

type tryLocker interface{ TryLock() bool }

func LockLocker(l sync.Locker) { Lock(l.(tryLocker).TryLock, l.Lock) }
func UnlockLocker(l sync.Locker) { Unlock(l.Unlock) }

//go:norace
func OnceDo(o *sync.Once, f func()) {
	site := caller()
	s, g := cur(site)
	if s == nil {
		o.Do(f)
		return
	}
	s.park(g, site, wRun, nil)
	for {
		s.mu.Lock()
		st := s.onces[o]
		if st == nil {
			st = &onceState{}
			s.onces[o] = st
		}
		if st.done {
			s.mu.Unlock()
			o.Do(func() {}) // keep real state consistent
			return
		}
		if !st.running {
			st.running = true
			s.mu.Unlock()
			o.Do(f)
			s.mu.Lock()
			st.done = true
			for w := range s.parked {
				if w.wk == wOnce && w.on == any(o) {
					w.wk = wRun
				}
			}
			s.mu.Unlock()
			return
		}
		s.mu.Unlock()
		s.park(g, site, wOnce, o)
	}
}

//go:norace
func CondWait(c *sync.Cond) {
	site := caller()
	s, g := cur(site)
	if s == nil {
		c.Wait()
		return
	}
	UnlockLocker(c.L)
	s.park(g, site, wCond, c)
	LockLocker(c.L)
}

//go:norace
func condWake(c *sync.Cond, all bool) {
	if s := active.Load(); s != nil {
		s.mu.Lock()
		var ws []*G
		for w := range s.parked {
			if w.wk == wCond && w.on == any(c) {
				ws = append(ws, w)
			}
		}
		sort.Slice(ws, func(i, j int) bool { return ws[i].id < ws[j].id })
		for i, w := range ws {
			if all || i == 0 {
				w.wk = wRun
			}
		}
		s.mu.Unlock()
	}
}
func CondSignal(c *sync.Cond)    { c.Signal(); condWake(c, false) }
func CondBroadcast(c *sync.Cond) { c.Broadcast(); condWake(c, true) }

func WGWait(wait func())                 { wait(); Resumed() }
func Sleep(d time.Duration)              { time.Sleep(d); Resumed() }
func Recv[T any](ch <-chan T) T          { v := <-ch; Resumed(); return v }
func Recv2[T any](ch <-chan T) (T, bool) { v, ok := <-ch; Resumed(); return v, ok }
func Send[T any](ch chan<- T, v T)       { ch <- v; Resumed() }

type Token struct{ id string }

//go:norace
func Spawn() Token {
	s := active.Load()
	if s == nil {
		return Token{}
	}
	s.mu.Lock()
	g := s.byGoid[goid()]
	s.mu.Unlock()
	if g == nil {
		_, g = cur("spawn")
	}
	g.nspawn++
	return Token{id: g.id + "." + strconv.Itoa(g.nspawn)}
}

//go:norace
func Start(t Token) {
	runtime.RaceDisable()
	defer runtime.RaceEnable()
	s := active.Load()
	if s == nil || t.id == "" {
		return
	}
	g := &G{id: t.id, wake: make(chan struct{})}
	s.mu.Lock()
	s.byGoid[goid()] = g
	s.mu.Unlock()
	s.park(g, "start", wRun, nil)
}

//go:norace
func Exit() {
	runtime.RaceDisable()
	defer runtime.RaceEnable()
	if s := active.Load(); s != nil {
		s.mu.Lock()
		delete(s.byGoid, goid())
		s.mu.Unlock()
	}
}

// Go starts an actor goroutine under simulator control.
func Go(f func()) {
	t := Spawn()
	go func() { Start(t); defer Exit(); f() }()
}

func MapKeys[M ~map[K]V, K comparable, V any](m M) []K {
	keys := make([]K, 0, len(m))
	for k := range m {
		keys = append(keys, k)
	}
	sort.Slice(keys, func(i, j int) bool { return fmt.Sprint(keys[i]) < fmt.Sprint(keys[j]) })
	return keys
}

func DialContext(real func(ctx context.Context, network, addr string) (net.Conn, error), ctx context.Context, network, addr string) (net.Conn, error) {
	return real(ctx, network, addr)
}

// ---- scheduler ----

//go:norace
func New(seed int64) *Sim {
	s := &Sim{byGoid: map[uint64]*G{}, parked: map[*G]bool{}, onces: map[*sync.Once]*onceState{},
		rng: rand.New(rand.NewSource(seed)), Trace: new(bytes.Buffer), Stats: map[string]int{}}
	s.byGoid[goid()] = &G{id: "r", wake: make(chan struct{})}
	active.Store(s)
	return s
}

// Close ends the simulation: hooks become pass-through and every parked goroutine is released.
//go:norace
func (s *Sim) Close() {
	active.Store(nil)
	s.mu.Lock()
	for g := range s.parked {
		close(g.wake)
		delete(s.parked, g)
	}
	s.mu.Unlock()
}

//go:norace
func (s *Sim) Hash() uint64 { h := fnv.New64a(); h.Write(s.Trace.Bytes()); return h.Sum64() }

// Run schedules until done() or quiescence; returns "", "deadlock", "steps" or "idle".
//go:norace
func (s *Sim) Run(maxSteps int, horizon time.Duration, done func() bool) string {
	runtime.RaceDisable()
	defer runtime.RaceEnable()
	start := time.Now()
	for ; s.Steps < maxSteps; s.Steps++ {
		synctest.Wait()
		if done != nil && done() {
			return ""
		}
		s.mu.Lock()
		var cands []*G
		blocked := 0
		for g := range s.parked {
			if g.wk == wRun {
				cands = append(cands, g)
			} else {
				blocked++
			}
		}
		live := len(s.byGoid) - 1
		s.mu.Unlock()
		if len(cands) == 0 {
			if live > 0 && blocked == live {
				return "deadlock"
			}
			if time.Since(start) >= horizon {
				return "idle"
			}
			fmt.Fprintf(s.Trace, "T;")
			s.Stats["clock"]++
			time.Sleep(50 * time.Millisecond)
			continue
		}
		sort.Slice(cands, func(i, j int) bool { return cands[i].id < cands[j].id })
		g := cands[s.rng.Intn(len(cands))]
		fmt.Fprintf(s.Trace, "%s@%s;", g.id, g.site)
		s.mu.Lock()
		delete(s.parked, g)
		s.mu.Unlock()
		g.wake <- struct{}{}
	}
	return "steps"
}

// Dump describes parked goroutines (for deadlock reports).
//go:norace
func (s *Sim) Dump() string {
	s.mu.Lock()
	defer s.mu.Unlock()
	var out []string
	for g := range s.parked {
		out = append(out, fmt.Sprintf("%s wk=%d at %s", g.id, g.wk, g.site))
	}
	sort.Strings(out)
	return fmt.Sprint(out)
}
