package simrt

import (
	"fmt"
	"sort"
)

// MapKeys returns a snapshot of m's keys in a simulator-chosen order: canonical sort,
// rotated by an aux-tape pick when called by a simulated goroutine. Iterating a snapshot and
// skipping keys that disappeared meanwhile is a legal refinement of Go's unspecified map
// iteration order.
func MapKeys[M ~map[K]V, K comparable, V any](m M) []K {
	keys := make([]K, 0, len(m))
	for k := range m {
		keys = append(keys, k)
	}
	if len(keys) < 2 {
		return keys
	}
	switch ks := any(keys).(type) {
	case []string:
		sort.Strings(ks)
	case []int:
		sort.Ints(ks)
	default:
		strs := make([]string, len(keys))
		for i, k := range keys {
			strs[i] = fmt.Sprint(k)
		}
		idx := make([]int, len(keys))
		for i := range idx {
			idx[i] = i
		}
		sort.SliceStable(idx, func(a, b int) bool { return strs[idx[a]] < strs[idx[b]] })
		out := make([]K, len(keys))
		for i, j := range idx {
			out[i] = keys[j]
		}
		keys = out
	}
	if s, g := cur("MapKeys"); s != nil && g != nil && s.cfg.Aux != nil {
		r := s.cfg.Aux.Pick(len(keys))
		if r > 0 {
			rot := make([]K, 0, len(keys))
			rot = append(rot, keys[r:]...)
			rot = append(rot, keys[:r]...)
			keys = rot
		}
	}
	return keys
}
