package worlds

import "go.minekube.com/gate/pkg/edition/java/proto/packet"

// onlineCreds scripts how the client answers an EncryptionRequest (online mode). Filled in
// by the C08/C09 scenarios.
type onlineCreds struct {
	Respond func(c *clientModel, req *packet.EncryptionRequest)
}

func (o *onlineCreds) respond(c *clientModel, req *packet.EncryptionRequest) {
	if o.Respond != nil {
		o.Respond(c, req)
	}
}
