//go:build verif

package proxy

import (
	"net"

	"github.com/go-logr/logr"
)

// VerifWrapProxyProtocol applies the accept-path PROXY protocol wrapping (what
// listenAndServe does for every accepted connection when proxyProtocol is enabled).
func (p *Proxy) VerifWrapProxyProtocol(conn net.Conn) net.Conn {
	if !p.config().ProxyProtocol {
		return conn
	}
	return p.proxyProtocol.Load().wrapConn(conn)
}

// VerifSetLogger installs a logger without Start (replay diagnostics only).
func (p *Proxy) VerifSetLogger(l logr.Logger) { p.log = l }
